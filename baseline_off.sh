#!/bin/bash
# Runs the repository's own pinned test-suite with the verification guard OFF (no stubs, no contracts).
# usage: baseline_off.sh [repo_dir]   -- prints the pytest summary; exit 0 iff exactly the 37 baseline tests pass
REPO="${1:-/repo}"
cd "$REPO" || exit 2
unset RPYLIB_VERIF VERIF_REPO
OUT=$(mktemp -d)
env -u RPYLIB_VERIF -u PYTHONPATH /venv/bin/python -m pytest -ra -q -p no:cacheprovider --timeout=900 \
    --continue-on-collection-errors --junitxml="$OUT/junit.xml" > "$OUT/log.txt" 2>&1
tail -n 8 "$OUT/log.txt"
PASSED=$(grep -o 'tests="[0-9]*"' "$OUT/junit.xml" | head -1)
/venv/bin/python - "$OUT/junit.xml" <<'PY'
import sys, json, xml.etree.ElementTree as ET
base = set(json.load(open('/root/.vp/BASELINE.json'))['stable_pass'])
root = ET.parse(sys.argv[1]).getroot()
ok = set()
for tc in root.iter('testcase'):
    if not any(ch.tag in ('failure', 'error', 'skipped') for ch in tc):
        ok.add(f"{tc.get('classname')}::{tc.get('name')}")
missing = sorted(base - ok)
print(f"baseline tests passing: {len(base & ok)}/{len(base)}")
for m in missing:
    print("  NOT PASSING:", m)
sys.exit(0 if not missing else 1)
PY
RC=$?
rm -rf "$OUT"
exit $RC
