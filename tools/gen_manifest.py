#!/venv/bin/python
"""Regenerates /verif/MANIFEST.json from the table below (kept here so that the manifest stays consistent)."""
import json
import os

VERIF = os.path.dirname(os.path.dirname(os.path.abspath(__file__)))

CHECKS = {
    "C08": ("three runtime monitors on real engines and real worker pools: bit-identity of stored samples across repeated seeded runs (fresh interpreters / perturbed generators), audit hook on numpy.random.seed / random.seed recording installed generator states, tagged pre-drawn rows whose consumption is logged (pid, row id) in an append-only file shared with the forked workers, the same file receiving every seeding / state save / state restore of every process (generator state digests) and every uniform and normal variate handed out",
            "Held-on-observed: seeded single-process runs repeat bit for bit (standard and multilevel, fixed-date and jump-time); no generator state re-installed after use; every pre-drawn row consumed once across 1, 2, 4, default workers and different chunkings; no generator state installed twice in any process of a run, none restored after pre-drawn rows that samples consume; uniform variates handed out once, normal variates of jump-time runs drawn once across processes; no bit-equal fine payoffs inside a level; every sampling method of the chain; seeded and unseeded runs; the same engine priced twice.",
            "Schedules are those the OS produced in the runs (not enumerated); time-outs are inconclusive.", "3/C08"),
    "C20": ("monitors on the real calibration functions with pre-screened problems (incl. maturities of days, solutions in the flat part of the objective, intervals without solution) and deep snapshots of the input model (independent COS repricing of the rebuilt model); Parameters objects driven through generated assignment histories and compared with directly constructed models; constraint probes",
            "Held-on-observed: calibrated value inside the interval, reprices the target, same model type, input untouched (generic, ATM and default calibration for HEM, Merton, VG, CGMY); rebuilt = direct model on density, integrals, exponent, drifts, cumulants after 1..8 assignments; every constrained attribute rejects invalid values and keeps the old one.",
            "Calibration problems inside the C18 box (COS accuracy).", "3/C20"),
    "C19": ("recorded per-state rates of real chains on CTMCCredit grids vs closed forms; harness-side Levy-copula mass of the default region from a different decomposition (inclusion-exclusion of half-spaces, corner sums on quadrature tail integrals); quadrature of the CDS payoff against the default-time law; first-to-default times on simulated credit-chain paths; another model priced at the same thresholds before; oracle densities from a model built apart",
            "Held-on-observed: 1-d default rate = closed form of the truncated model = quadrature; n-d default rate = region mass in the box, closed form within the mass outside the box; theta = inclusion-exclusion, monotone; survival / spread relations; inverses; E[CDS payoff].",
            "Infinite-variation margins in dimension 2 only; copula callable trusted (C11).", "3/C19"),
    "C16": ("record-only capture of the driver path consumed by the real single and coupled SDE schemes; independent numpy Euler recursion and closed forms (constant, diagonal) as oracle; df monitors on fine meshes around every tenor",
            "Held-on-observed: scheme = Euler recursion for Constant / DiagX / Libor / ForwardMarket coefficients with 1-d and copula drivers, both components of the coupled pair at levels 1..2 (Libor model included), integer / list initial values and tenors, epsilon = h^BG, coarse driver drift of the level below; df(0)=1, positive, non-increasing, continuous.",
            "Copula drivers in dimension 2; the Libor model with independent components is refused by the library (NotImplementedError).", "3/C16"),
    "C15": ("record-only taps on the variate sources (scripted jump counts; recorded jump times, sampled states / jump sizes, normals) around the real simulators in their three modes; the path is recomputed by the harness from the recorded variates; direct calls of the two build_finer_grid closures",
            "Held-on-observed: times 0 = t_0 < ... = T, running jump sums and running diffusion sums for 2..13 product dates, step cap incl. after the last jump and on paths without jump, original points kept, inserted points repeat the previous value, fine/coarse aligned, coarse component from taps on the coupling maps, every step carries a Brownian increment; direct, 1-d chain, copula chain, 1-d coupling, copula coupling.",
            "Infinite-variation copulas in dimension 2; small grids.", "3/C15"),
    "C05": ("sequential reference model fed by the event log of a scripted coupling process (unique-id samples) run through the real multilevel engine; record-only wrappers on Statistic.add (fresh row below the allocated size); payoff dimension 1..3 and 0..2 regression control variates with an independent regression as oracle",
            "Held-on-observed: Nl, stored rows, price, ml, vl, level means/variances, cl, cost, kurtosis recomputed from exactly the logged samples over adaptive histories (late levels, multi-pass) and the fixed-level variant, with and without control variates, scalar and vector payoffs, scripted allocation histories.",
            "One process or a pool of two workers; control samples that are (nearly) degenerate at a level are skipped and counted; budget-limited runs are inconclusive.", "3/C05"),
    "C06": ("(a) contract on the real allocation function with the bias tolerance of the stopping test observed by bisection; the stopping test itself against the stated three-level rule on vectors of 1..7 level means; (b) recorded-event checker over runs of the real engine (one process or two workers) with wrapped criteria / allocation callables and a tap on MLMCStatistics.add",
            "Held-on-observed: sum V_l/N_l + T^2 <= rmse^2 on vectors with dynamic range 1e-12..1e6 and zeros; runs never exceed the maximum level (whole number or not), return only on a true criteria (re-evaluated against the stated rule, with the configured rate) or at the maximum level with every level within the 1% rule; reported N_l = samples that reached the statistics; default-configuration histories.",
            "Termination restated as a bound on the number of samples.", "3/C06"),
    "C07": ("the real standard engine driven by a scripted process with unique-valued logged paths (single process) or by a process whose workers log the simulated terminal values in an O_APPEND file (2..4 workers); numpy re-computation as oracle (mean, unbiased error, regression control variates)",
            "Held-on-observed: price, per-component error, each path used once, control-variate estimator = regression estimator, = raw mean for centred controls, variance not larger.",
            "Controls without sample variance or collinear in the sample are not judged (uncorrelated ones are); concentrated samples, symmetric path sets, the same engine priced again.", "3/C07"),
    "C17": ("history-replay monitor: every underlying x payoff evaluated on a fresh product and on a long-lived one after generated histories (other paths, knocking paths, representation switches), in both representations; harness-side path scans and algebraic identities as oracle; the two path managers on coupled pairs and with barrier / parametrised control variates; products sharing their underlying and payoff objects",
            "Held-on-observed: purity, identity = log representation, parity / spread / butterfly / digital identities, knock-in + knock-out = vanilla with the barrier event scanned by the harness, averages within extremes, default times, n-th-to-default monotone, notional linearity.",
            "LookBack excluded (its process() raises by design); rate payoffs and CDS are in the purity / representation monitor only (the statement gives no identity for them).", "3/C17"),
    "C18": ("runtime monitor of static no-arbitrage relations and cross-method agreement (COS, FFT, Black-Scholes closed form, VG vs CGMY(y=0)) on generated models of a documented box; tolerances calibrated on 3000 models with a 10x margin; Merton's series of Black-Scholes prices (written in the harness) as oracle for Merton; models re-declared in another representation or with rates assigned after construction",
            "Held-on-observed: parity, bounds, monotonicity, convexity, digital range/monotonicity, density positivity and mass, cdf, scalar = vector strikes, price(product), COS = FFT = closed form.",
            "Empirical parameter box (not a proof of truncation error); strikes in the middle 40% of the COS range.", "3/C18"),
    "C10": ("reference-oracle monitor: levy_exponent on real/imaginary arguments vs Levy-Khintchine quadrature of the declared triplet; stated cumulants vs Cauchy integrals of the exponent; recorded drift across generated sequences of representation changes; martingale identity through CF, direct-simulation drift and chain (TILDE) drift; the truncate -> TILDE history and the process_drift() of real Markov-chain processes",
            "Held-on-observed: all families incl. the five CGMY branches, 12 real + 6 imaginary arguments per model, cumulants 1..6, 6-step conversion sequences with return, three martingale routes.",
            "Quadrature of the density trusted (stable series for the compensated integrand); arguments with n - activity < 0.25 skipped.", "3/C10"),
    "C11": ("monitors on the real copula callables and the volume/margin operators over generated argument vectors and rectangles; oracle: harness 2^d corner sums, integration of the stated derivative against exact F-volumes, monotonicity meshes, inverse round trips",
            "Held-on-observed: grounded, d-increasing (incl. rectangles straddling 0 and infinite upper sides), identity margins for Clayton (eta in [0,1] incl. end points), independent and dependent copulas in d=2,3; Clayton conditional distribution / inverse; mixed-derivative relation (known finding).",
            "Rectangles with corners in (-inf, inf]^d except the all-infinite upper corner; scipy nquad trusted.", "3/C11"),
    "C12": ("monitors on LevyCopulaModel.mass (fast paths), _mass_nd, tail integrals and their inverse over generated rectangles interleaved over several instances; oracle: corner-sum definition on quadrature tail integrals, additivity, marginal quadrature, adaptive integration of the implied joint density; zero end points written -0.0, integer end points, copula changed on a used model",
            "Held-on-observed: non-negativity, fast = general = definition for every sign pattern, additivity under random splits incl. at 0, whole-line = margin, index subsets = I-margins, inverse tail integral round trips, instance-history independence.",
            "Copula callable trusted (C11); absolute floor 1e-14 x marginal mass for closed-form rounding.", "3/C12"),
    "C03": ("exact measurement of the coupling kernel as a function of the scripted coupling uniform after real next_level() calls; conservation / locality checker against independent cell masses of both grids; recorded previous-level drift and diffusion; replay of a logged coupled simulation through the measured kernel; the SDE coupling (constant coefficient and Libor model) against chains / Euler schemes built apart",
            "Held-on-observed: rate conservation for every coarse state, locality of every increment, coarse drift/diffusion of level l-1, shared Brownian increments, coarse path = image of the fine path; 1-d (all methods, 3 simulation modes, levels 1..3) and 2-d/3-d copulas.",
            "Cell masses from quadrature / corner sums; chains with intensity >= 1e-9; infinite-variation copulas in dimension 2 only.", "3/C03"),
    "C04": ("reference-oracle monitor on the initialised chain: process_drift + recorded/measured rates vs quadrature mean of the truncated process in the declared representation; diffusion and variance-gap monitors; the diffusion coefficient carried by simulated jump-time paths (from recorded normals)",
            "Held-on-observed: all representations (native, ZERO, CENTER, ONEONE, TILDE) x families x grids x levels x methods; copula margins with a-priori slack.",
            "Truncated process = drift fixed in the declared representation, nu restricted to the grid bounds; central-cell oracle on uniform grids; tolerance of the small-jump moments = the accuracy the code requests from its own quadrature.", "3/C04"),
    "C02": ("exact black-box measurement of the map uniform -> state of every sampler (recursive bisection to one ulp; integer bisection over the 2^32 words for the table method), scripted variate sources for the batch call, replay of the same uniforms under 4 orders / fresh samplers / deep and dill copies of a used sampler",
            "Held-on-observed (3 known findings: the single uniform 0.0 on one-sided measures / dependent copulas): pre-image lengths vs target vector (raw) or independent quadrature cell masses (chains) for all 7 sampler classes incl. n-d; exact never-origin / never-outside / never-zero-probability monitors; batch == single-uniform; history independence.",
            "Assumes no hidden piece between equal neighbours below the probe spacing; a set of uniforms of measure <= 1e-12 next to 1 is exempt.", "3/C02"),
    "C01": ("record-only hooks on the sampling factory + exact black-box law measurement of on-the-fly samplers; oracle: quadrature of the model density on harness-recomputed cells, corner-sum Levy-copula mass on quadrature tail integrals; second model on the same grid, chain rebuilt after refining in place, model object used by an earlier chain, measure already restricted",
            "Held-on-observed: every state rate handed to / realised by every accepted sampling method compared with an independent mass, on all grid constructors, levels 0..5, 1-d families and 2-d/3-d copulas; tiling and intensity monitors.",
            "Trusts scipy quad and the copula callable (C11); copulas with infinite-variation margins in dimension 2 only.", "3/C01"),
    "C13": ("icontract post-conditions on CTMCGrid.__init__ and on every refine() of the class tree attached from the harness (class invariant + OLD-snapshot nesting contract), quadrature oracle for promised probabilities",
            "Held-on-observed: contracts evaluated on every grid built and refined by all 6 constructors and on hand-built per-axis grids, d=1..3, 0..8 refinements; a refine() without post-condition evaluation is inconclusive.",
            "Domain: credit thresholds l<a<-h (on the bounds: refused or well-formed), spatial steps up to the size of the bounds (well-formed or refused), two-sided measures for probability-step grids.", "3/C13"),
    # id: (technique, level text, level note, design ref)
    "C09": ("runtime monitor of every Levy-measure integral vs independent quadrature of the model's own density "
            "(reference-oracle monitor over generated intervals; library quad calls counted by a hook; successive truncations; activity indices next to 1)",
            "Held-on-observed: every public integral of every measure/truncated wrapper is executed on generated intervals of "
            "all classes and compared with quadrature of the density, plus additivity and sign monitors; exploration only.",
            "Trusts scipy quad (with its error estimate in the tolerance), the parameter boxes of DESIGN section 3.", "3/C09"),
    "C14": ("round-trip / exactly-once monitors on the real pairing, projection, lazy product and state enumeration, "
            "exact integer oracle (itertools, big ints), generated call orders",
            "Held-on-observed: exhaustive index windows, windows around perfect squares/cubes up to 4e16, all interval shapes "
            "up to 40x40 under 5 query orders, all size tuples up to 6^3, StatesManager on real 1-3-d grids.",
            "Exact integer arithmetic as oracle; gmpy2.qdiv stubbed by fractions.Fraction.", "3/C14"),
}

NOT_APPLICABLE = []


def main():
    props = [json.loads(l) for l in open(os.path.join(VERIF, "properties.jsonl"))]
    checks = []
    for p in props:
        pid = p["id"]
        if pid not in CHECKS:
            continue
        tech, text, note, ref = CHECKS[pid]
        checks.append({
            "property_id": pid,
            "quick_cmd": f"./check {pid} --tier quick",
            "thorough_cmd": f"./check {pid} --tier thorough",
            "evidence_file": f"/verif/evidence/{pid}.json",
            "replay_cmd_template": f"./check {pid} --replay {{path}}",
            "engine": "rv",
            "level_claimed": {"category": "exploration", "text": text, "design_ref": f"DESIGN.md section {ref}"},
            "level_note": note,
            "technique": tech,
        })
    claimed = {c["property_id"] for c in checks}
    na = [e for e in NOT_APPLICABLE if e["property_id"] not in claimed]
    pending = [p["id"] for p in props if p["id"] not in claimed and p["id"] not in {e["property_id"] for e in na}]
    for pid in pending:
        na.append({"property_id": pid, "reason": "check not built yet in this session (runtime monitoring applies; see DESIGN.md section 3)"})
    manifest = {
        "version": 1,
        "setup_cmd": "/venv/bin/python -c \"import sys; sys.path.insert(0, '/verif'); from rv import bootstrap; bootstrap.ensure_deps()\"",
        "hooks": {
            "guard": "RPYLIB_VERIF",
            "enable": "no source hook exists: every observation point is reached from the harness by wrapping class/module "
                      "attributes (RPYLIB_VERIF=1 is only exported by the harness); rpylib is imported from /repo's working tree "
                      "by a fresh interpreter per check/shard",
            "baseline_off_cmd": "/verif/baseline_off.sh",
            "source_commits": [],
            "add_only": True,
        },
        "engines": [{"name": "rv", "path": "/verif/rv", "serves_properties": sorted(claimed),
                     "kind_free_text": "runtime monitors (contracts, recorded-event checkers, reference-model oracles) over "
                                       "generated and scripted workloads on the real rpylib code"}],
        "checks": checks,
        "notes": "Exit codes: 0 held on what was observed (KNOWN-FINDING lines possible), 1 VIOLATION, 2 INCONCLUSIVE. "
                 "Genuine defects: /verif/known_findings.json.",
        "not_applicable": na,
    }
    with open(os.path.join(VERIF, "MANIFEST.json"), "w") as fh:
        json.dump(manifest, fh, indent=1)
    print(f"{len(checks)} checks, {len(na)} not claimed")


if __name__ == "__main__":
    main()
