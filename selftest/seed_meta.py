#!/venv/bin/python
"""usage: seed_meta.py <seed name> "<what it breaks>" "<what it needs to manifest>" [extra checks...]
Runs selftest/verify_seed.sh on seeded/<name> and writes seeded/<name>/meta.json from what was observed."""
import json
import re
import subprocess
import sys

name, breaks, needs = sys.argv[1], sys.argv[2], sys.argv[3]
extra = sys.argv[4:]
prop = name.split("-")[0]
out = subprocess.run(["selftest/verify_seed.sh", f"seeded/{name}", prop] + extra, capture_output=True, text=True, cwd="/verif").stdout
m = re.search(r"demo clean rc=(\d+), demo patched rc=(\d+).*tests with patch: (\d+) passed", out)
checks = re.findall(r"check (\S+) \((\w+)\) on patched tree: exit (\d+) ::\s*(?:mechanism=(\S*))?", out)
viol = re.findall(r"violations reported: (\d+)", out)
caught = [(c[0], c[3], v) for c, v in zip(checks, viol) if c[2] == "1"]
own = [c for c in caught if c[0] == prop]
ok = bool(m and m.group(1) == "0" and m.group(2) != "0" and m.group(3) == "37")
meta = {"property": prop, "variant": name.split("-")[1], "origin": f"sub-agent given only the text of {prop} and a scratch worktree",
        "breaks": breaks, "needs_to_manifest": needs,
        "caught_by": "; ".join(f"{c} (first mechanism: {k}; {v} VIOLATION line(s))" for c, k, v in caught) if caught else "NOT CAUGHT",
        "verified": ("selftest/verify_seed.sh seeded/%s : scratch worktree of /repo HEAD; demo.py exits %s on the clean tree and %s with patch.diff applied; the "
                     "repository's test-suite reports %s passed with the patch; quick tier of %s with VERIF_REPO pointing at the patched scratch tree: exit %s"
                     % (name, m.group(1) if m else "?", m.group(2) if m else "?", m.group(3) if m else "?", ", ".join(c[0] for c in checks),
                        ", ".join(c[2] for c in checks)))}
json.dump(meta, open(f"/verif/seeded/{name}/meta.json", "w"), indent=1)
print(name, "OK" if ok and own else ("SEED-PROBLEM" if not ok else "MISSED"), "|", meta["caught_by"])
if not (ok and own):
    print(out)
