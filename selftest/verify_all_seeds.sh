#!/bin/bash
# re-verifies every seeded change under /verif/seeded (three lanes in parallel); prints one summary line per seed and the
# list of seeds whose own property check did not exit 1 on the patched tree
cd /verif
ls -d seeded/C* | sort > .scratch/seedlist.txt
split -n l/3 .scratch/seedlist.txt .scratch/seedlane.
for lane in .scratch/seedlane.*; do
  ( for s in $(cat $lane); do selftest/verify_seed.sh $s 2>&1 | grep -E "^SEED|check C" ; done > $lane.out ) &
done
wait
cat .scratch/seedlane.*.out > .scratch/seeds_verify.log
rm -f .scratch/seedlane.*
grep -c "^SEED" .scratch/seeds_verify.log | sed 's/^/seeds verified: /'
grep -B1 "exit [02] ::" .scratch/seeds_verify.log | grep "^SEED" | sed 's/^/NOT CAUGHT: /'
grep "^SEED" .scratch/seeds_verify.log | grep -v "demo clean rc=0, demo patched rc=[1-9]" | sed 's/^/DEMO PROBLEM: /'
grep "^SEED" .scratch/seeds_verify.log | grep -v "tests with patch: 37 passed" | sed 's/^/TESTS PROBLEM: /'
