#!/bin/bash
# usage: verify_seed.sh <seed_dir> [check ids...]
#   <seed_dir> contains patch.diff and demo.py (and meta.json).  Creates a scratch worktree of /repo HEAD outside /repo and
#   /verif, confirms (a) demo passes on the clean tree, (b) with the patch the repository's tests still pass and the demo
#   fails, then runs the named checks (default: the property in meta.json) against the patched scratch tree via VERIF_REPO.
#   The scratch worktree is removed at the end.  Nothing is applied to /repo itself.
set -u
SEED="$(readlink -f "$1")"; shift
CHECKS="$*"
NAME="$(basename "$SEED")"
[ -z "$CHECKS" ] && CHECKS="$(/venv/bin/python -c "import json,sys; print(json.load(open('$SEED/meta.json'))['property'])")"
TIER="${SEED_TIER:-quick}"
WT="$(mktemp -d /tmp/seedwt.XXXXXX)"; rmdir "$WT"
git -C /repo worktree add -q "$WT" HEAD || exit 2
trap 'git -C /repo worktree remove --force "$WT" >/dev/null 2>&1; rm -rf "$WT"' EXIT
run_demo() { (cd "$WT" && PYTHONPATH="$WT:/verif/stubs" SYMPY_GROUND_TYPES=python timeout 900 /venv/bin/python "$SEED/demo.py" > "$WT/.demo.out" 2>&1; echo $?); }
RC_CLEAN=$(run_demo)
if ! git -C "$WT" apply "$SEED/patch.diff"; then echo "SEED $NAME: patch does not apply"; exit 2; fi
TESTS=$(cd "$WT" && /venv/bin/python -m pytest -q -p no:cacheprovider --continue-on-collection-errors 2>&1 | grep -o "[0-9]* passed" | head -1)
RC_MUT=$(run_demo)
echo "SEED $NAME: demo clean rc=$RC_CLEAN, demo patched rc=$RC_MUT ($(tail -1 "$WT/.demo.out" | cut -c1-160)), tests with patch: $TESTS"
for C in $CHECKS; do
  OUT=$(cd /verif && VERIF_REPO="$WT" ./check "$C" --tier "$TIER" 2>&1)
  RC=$?
  echo "  check $C ($TIER) on patched tree: exit $RC :: $(echo "$OUT" | grep -m1 'mechanism=' | cut -c1-260)"
  echo "$OUT" | grep -c '^VIOLATION' | sed 's/^/    violations reported: /'
done
