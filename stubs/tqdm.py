"""Harness stub for the absent third-party module tqdm: pass-through (returns the iterable itself)."""


def tqdm(iterable=None, *args, **kwargs):
    return iterable
