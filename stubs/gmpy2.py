"""Harness stub for the absent third-party module gmpy2 (only ``qdiv`` is used by rpylib).

``qdiv(a, b)`` is exact rational division; ``fractions.Fraction`` has the same ``floor`` / ``%``
behaviour as ``mpq``.  Part of the trusted base of /verif; never on the path of the repository's
own test run.
"""
from fractions import Fraction


def qdiv(a, b=1):
    return Fraction(a, b)
