"""Exact black-box measurement of a piecewise-constant map  u in [0, 1) -> state.

Every discrete sampler is, for a fixed construction, a piecewise-constant function of the uniform it
consumes.  ``measure`` evaluates the function on a probe set and bisects every interval whose end
points map to different states down to one ulp, recursively on both halves, so that every piece whose
neighbours differ is found and its length is exact to ~1e-16 per break.

What cannot be seen: a piece narrower than the probe spacing that sits between two equal neighbours
(stated as an assumption in the evidence; the probe set contains k/K, k/K +- ulp, the partial sums of the
target +- ulp and a uniform grid of >= 20 K points, which covers one-break-per-column samplers).
"""
from __future__ import annotations

import math
from collections import defaultdict

import numpy as np


def _next(x):
    return math.nextafter(x, math.inf)


def _prev(x):
    return math.nextafter(x, -math.inf)


class Measurement:
    def __init__(self):
        self.pieces = []          # (start, end, state) with end exclusive, sorted
        self.evaluations = 0
        self.nondeterministic = []  # (u, first, second)

    def lengths(self):
        out = defaultdict(float)
        for a, b, s in self.pieces:
            out[s] += b - a
        return dict(out)

    def state_at(self, u):
        import bisect

        i = bisect.bisect_right([p[0] for p in self.pieces], u) - 1
        return self.pieces[i][2]


def measure(f, probes, lo=0.0, hi=1.0, check_determinism=True, max_evals=2_000_000):
    """``f(u)`` -> hashable state for u in [lo, hi).  ``probes``: iterable of floats (clipped to [lo, hi))."""
    M = Measurement()
    top = _prev(hi)
    pts = sorted({min(max(float(p), lo), top) for p in probes} | {lo, top})
    cache = {}

    def ev(u):
        if u in cache:
            return cache[u]
        M.evaluations += 1
        if M.evaluations > max_evals:
            raise RuntimeError("piecewise.measure: evaluation budget exceeded")
        v = f(u)
        cache[u] = v
        return v

    vals = [ev(u) for u in pts]
    if check_determinism:
        for u, v in list(zip(pts, vals))[:: max(1, len(pts) // 200)]:
            M.evaluations += 1
            w = f(u)
            if w != v:
                M.nondeterministic.append((u, v, w))

    breaks = []  # (first u of the new piece, state from that u on)

    def refine(a, va, b, vb):
        """a < b, f(a)=va != f(b)=vb: find all breaks in (a, b]."""
        stack = [(a, va, b, vb)]
        while stack:
            a, va, b, vb = stack.pop()
            if va == vb:
                continue
            m = a + (b - a) / 2
            if m <= a or m >= b:  # adjacent floats
                breaks.append((b, vb))
                continue
            vm = ev(m)
            stack.append((m, vm, b, vb))
            stack.append((a, va, m, vm))

    for (a, va), (b, vb) in zip(zip(pts, vals), zip(pts[1:], vals[1:])):
        if va != vb:
            refine(a, va, b, vb)
    breaks.sort()
    start, state = lo, vals[0]
    for b, vb in breaks:
        M.pieces.append((start, b, state))
        start, state = b, vb
    M.pieces.append((start, hi, state))
    return M


def standard_probes(K, target=None, factor=20, extra=()):
    """Probe set for a K-state sampler: uniform grid, k/K and neighbours, partial sums of the target and neighbours."""
    n = max(200, factor * K)
    pts = list(np.linspace(0.0, 1.0, n, endpoint=False))
    pts += list((np.arange(n) + 0.37) / n)
    # alias-type samplers split [0,1) into K columns, each with (at most) one break: a piece at the start or at the end of a
    # column can sit between two equal neighbours, so every column boundary gets a geometric ladder of probes on both sides
    # (any end/start piece wider than ~1e-16 contains one of them; narrower ones weigh less than K * 1e-16 in total)
    ladder = [10.0 ** -e for e in range(3, 18)] + [0.5, 0.25, 0.1, 0.03, 0.01, 0.003]
    for k in range(K + 1):
        x = k / K
        pts += [x, _prev(x), _next(x)]
        for w in ladder:
            pts += [x - w / K, x + w / K]
    if target is not None:
        cs = np.cumsum(np.asarray(target, dtype=float))
        for c in cs:
            c = float(c)
            pts += [c, _prev(c), _next(c)]
    pts += [0.0, _next(0.0), 1e-300, 1e-17, 1e-12, _prev(1.0), 1 - 1e-12, 1 - 1e-9, 1 - 1e-7, 1 - 1e-5]
    pts += list(extra)
    return [p for p in pts if 0.0 <= p < 1.0]


def measure_int(f, probes, n):
    """Same for an integer argument i in [0, n): exact integer bisection. Returns {state: count}, evaluations."""
    pts = sorted({min(max(int(p), 0), n - 1) for p in probes} | {0, n - 1})
    cache = {}
    evals = 0

    def ev(i):
        nonlocal evals
        if i not in cache:
            evals += 1
            cache[i] = f(i)
        return cache[i]

    vals = [ev(i) for i in pts]
    breaks = []
    for (a, va), (b, vb) in zip(zip(pts, vals), zip(pts[1:], vals[1:])):
        stack = [(a, va, b, vb)]
        while stack:
            a_, va_, b_, vb_ = stack.pop()
            if va_ == vb_:
                continue
            if b_ - a_ == 1:
                breaks.append((b_, vb_))
                continue
            m = (a_ + b_) // 2
            vm = ev(m)
            stack.append((m, vm, b_, vb_))
            stack.append((a_, va_, m, vm))
    breaks.sort()
    counts = defaultdict(int)
    start, state = 0, vals[0]
    for b, vb in breaks:
        counts[state] += b - start
        start, state = b, vb
    counts[state] += n - start
    return dict(counts), evals, [b for b, _ in breaks]
