"""icontract post-conditions attached from the harness to the real rpylib classes (no source edit).

``icontract.invariant`` cannot be used on CTMCGrid (it re-wraps the ``functools.singledispatchmethod``
descriptors left_point / right_point / middle / outside and breaks their dispatch), so the class
invariant is expressed as a post-condition of the only two methods that write a grid's state:
``CTMCGrid.__init__`` (reached by every constructor, including the alternative ones that go through
``super().__init__``) and ``CTMCGrid.refine``.

Every condition *records* what it saw into ``LOG`` (evaluation counters + violations) and returns
True, so that one broken grid does not abort the workload and the check can attribute the witness.
"""
from __future__ import annotations

import math

import numpy as np

LOG = {"init_evals": 0, "refine_evals": 0, "violations": []}
_installed = False


def reset():
    LOG["init_evals"] = 0
    LOG["refine_evals"] = 0
    LOG["violations"] = []


def _viol(key, what, witness=None):
    LOG["violations"].append((key, what, witness))


def well_formed_problems(grid):
    """List of (key, message) for every way ``grid`` fails to be well formed."""
    out = []
    h = grid.h
    oc = grid.origin_coordinate
    origins = list(oc) if grid.dimension > 1 else [oc.value]
    if len(grid.axes) != grid.dimension or len(grid.truncations) != grid.dimension:
        out.append(("shape", f"{len(grid.axes)} axes / {len(grid.truncations)} truncations for dimension {grid.dimension}"))
        return out
    for k, (axis, o) in enumerate(zip(grid.axes, origins)):
        axis = np.asarray(axis, dtype=float)
        if not np.all(np.isfinite(axis)):
            out.append(("non-finite-state", f"axis {k} has non-finite states"))
            continue
        if axis.size < 3 or not np.all(np.diff(axis) > 0):
            bad = np.where(np.diff(axis) <= 0)[0][:3].tolist()
            out.append(("not-strictly-increasing", f"axis {k} is not strictly increasing at positions {bad}: "
                        f"{axis[max(0, bad[0] - 1):bad[0] + 3].tolist() if bad else axis.tolist()}"))
            continue
        if not (0 < o < axis.size - 1) or axis[o] != 0.0:
            out.append(("origin-not-zero", f"axis {k}: state at the origin index {o} is "
                        f"{axis[o] if 0 <= o < axis.size else 'out of range'}"))
            continue
        if axis[o - 1] != -h or axis[o + 1] != h:
            # allow 1 ulp: np.geomspace / np.linspace end points are set exactly, refinement halves exactly
            if not (math.isclose(axis[o - 1], -h, rel_tol=4e-16, abs_tol=0) and math.isclose(axis[o + 1], h, rel_tol=4e-16, abs_tol=0)):
                out.append(("neighbours-not-h", f"axis {k}: neighbours of 0 are {axis[o - 1]!r}, {axis[o + 1]!r} but h = {h!r}"))
        tr = grid.truncations[k]
        if tr[0] != axis[0] or tr[1] != axis[-1]:
            out.append(("truncations-differ-from-end-points", f"axis {k}: truncations {tr} but end points ({axis[0]}, {axis[-1]})"))
    return out


def _post_init(self):
    LOG["init_evals"] += 1
    for key, msg in well_formed_problems(self):
        _viol("init-" + key, f"{type(self).__name__} constructor: {msg}", {"type": type(self).__name__, "h": self.h})
    return True


def _snap_axes(self):
    return [np.array(a, dtype=float, copy=True) for a in self.axes]


def _snap_mid(self):
    # the cell boundaries the grid itself uses, evaluated BEFORE the refinement
    return [[self.middle(x, xp) for x, xp in zip(a, a[1:])] for a in self.axes]


def _snap_h(self):
    return self.h


def _snap_origin(self):
    oc = self.origin_coordinate
    return list(oc) if self.dimension > 1 else [oc.value]


def _snap_trunc(self):
    return [tuple(t) for t in self.truncations]


def _post_refine(self, OLD):
    LOG["refine_evals"] += 1
    name = type(self).__name__
    for key, msg in well_formed_problems(self):
        _viol("refine-" + key, f"{name}.refine(): {msg}", {"type": name})
    if self.h != OLD.h / 2:
        _viol("refine-h-not-halved", f"{name}.refine(): h went from {OLD.h!r} to {self.h!r}", None)
    oc = self.origin_coordinate
    origins = list(oc) if self.dimension > 1 else [oc.value]
    if origins != [2 * o for o in OLD.origin]:
        _viol("refine-origin-not-doubled", f"{name}.refine(): origin index went from {OLD.origin} to {origins}", None)
    if [tuple(t) for t in self.truncations] != OLD.trunc:
        _viol("refine-truncations-changed", f"{name}.refine(): truncations changed from {OLD.trunc} to {self.truncations}", None)
    for k, (old, mids) in enumerate(zip(OLD.axes, OLD.mid)):
        new = np.asarray(self.axes[k], dtype=float)
        if new.size != 2 * old.size - 1:
            _viol("refine-size", f"{name}.refine(): axis {k} has {new.size} states, expected {2 * old.size - 1}", None)
            continue
        if not np.array_equal(new[0::2], old):
            i = int(np.where(new[0::2] != old)[0][0])
            _viol("refine-old-state-moved", f"{name}.refine(): old state {old[i]!r} of axis {k} is not at index {2 * i} "
                  f"(found {new[2 * i]!r})", None)
        ins = new[1::2]
        mids = np.array([float(m) for m in mids])
        # (the same point up to the rounding of its formula: 1e-9 of the gap width)
        off = np.abs(ins - mids) > 1e-9 * np.diff(old)
        if np.any(off) or not np.all(np.isfinite(ins)):
            i = int(np.where(off | ~np.isfinite(ins))[0][0])
            _viol("refine-inserted-not-cell-boundary", f"{name}.refine(): state inserted in gap {i} of axis {k} is {ins[i]!r} "
                  f"but the grid's own cell boundary was {mids[i]!r}", None)
        if not (np.all(ins > old[:-1]) and np.all(ins < old[1:])):
            _viol("refine-inserted-outside-gap", f"{name}.refine(): an inserted state of axis {k} is not strictly inside its gap", None)
    return True


def install_grid_contracts():
    """Attach the post-conditions to CTMCGrid.__init__ and CTMCGrid.refine (idempotent)."""
    global _installed
    if _installed:
        return
    from . import bootstrap

    bootstrap.ensure_deps()
    import icontract
    from rpylib.grid.spatial import CTMCGrid

    class GridContractError(Exception):
        pass

    CTMCGrid.__init__ = icontract.ensure(_post_init, error=GridContractError)(CTMCGrid.__init__)
    def subclasses(cls):
        for sub in cls.__subclasses__():
            yield sub
            yield from subclasses(sub)

    # the post-condition goes on every refine() the class tree defines (a subclass with its own refine would otherwise never be observed)
    for cls in [CTMCGrid] + list(subclasses(CTMCGrid)):
        if "refine" not in cls.__dict__:
            continue
        refine = icontract.ensure(_post_refine, error=GridContractError)(cls.__dict__["refine"])
        refine = icontract.snapshot(_snap_axes, name="axes")(refine)
        refine = icontract.snapshot(_snap_mid, name="mid")(refine)
        refine = icontract.snapshot(_snap_h, name="h")(refine)
        refine = icontract.snapshot(_snap_origin, name="origin")(refine)
        refine = icontract.snapshot(_snap_trunc, name="trunc")(refine)
        cls.refine = refine
    _installed = True


def drain(R, prefix=""):
    """Move what the contracts observed into the recorder."""
    R.hit("grid_init_postconditions", LOG["init_evals"])
    R.hit("grid_refine_postconditions", LOG["refine_evals"])
    for key, what, wit in LOG["violations"]:
        R.violation(prefix + key, what, wit)
    reset()
