"""Scripted stand-ins for a Process (standard engine) and for a coupling process (multilevel engine).

They implement exactly the interface the real engines use and nothing else; every sample they produce has
a unique id and unique payoff values, and is appended to a shared log (kept across ``copy.deepcopy``) so
that the checker knows, independently of the engine's bookkeeping, which samples were simulated.
"""
from __future__ import annotations

import copy

import numpy as np


class ScriptedModel:
    def __init__(self, dim=1, rate=0.03):
        self._dim = dim
        self.rate = rate
        from rpylib.process.process import ProcessRepresentation

        self.process_representation = ProcessRepresentation.IDENDITY

    def dimension(self):
        return self._dim

    def dimension_model(self):
        return self._dim

    def df(self, t):
        return float(np.exp(-self.rate * t))

    def x0_value(self):
        return 0.0

    def characteristic_function(self, t, x):      # COSPricer(model) is constructed by the multilevel engine (density plots)
        return np.ones_like(np.asarray(x, dtype=complex))


class SharedLog:
    """a list that survives deepcopy by identity (all copies of a process write to the same log)"""

    def __init__(self):
        self.events = []

    def __deepcopy__(self, memo):
        return self


class ScriptedProcess:
    """Process for the standard engine: returns the scripted terminal values one by one."""

    def __init__(self, values, dim=1, rate=0.03, x0=0.0, maturity=1.0, log_representation=False):
        from rpylib.process.process import ProcessRepresentation

        self.model = ScriptedModel(dim, rate)
        self.process_representation = ProcessRepresentation.IDENDITY
        self.log_representation = bool(log_representation)
        if log_representation:
            # the process simulates the logarithm of the underlying (the scripted values stay the terminal values of the underlying itself)
            self.process_representation = ProcessRepresentation.LOG
            self.model.process_representation = ProcessRepresentation.LOG
        self.values = [np.atleast_1d(np.asarray(v, dtype=float)) for v in values]
        self.log = SharedLog()
        self._next = 0
        self.x0 = x0
        self.calls = {"initialisation": 0, "pre_computation": 0}

    def dimension(self):
        return self.model.dimension()

    def initialisation(self, product, max_step_epsilon=None):
        self.calls["initialisation"] += 1
        self.maturity = product.maturity

    def pre_computation(self, mc_paths, product):
        self.calls["pre_computation"] += 1

    def deterministic_path(self, times):
        return self.x0 + 0.0 * np.asarray(times, dtype=float)

    def df(self, t):
        return self.model.df(t)

    def one_simulation_cost(self, product):
        return 1.0

    def reset_one_simulation_cost(self):
        pass

    def simulate_one_path(self):
        from rpylib.montecarlo.path import StochasticJumpPath

        i = self._next
        self._next += 1
        v = self.values[i]
        if getattr(self, "log_representation", False):
            v = np.log(v)
        self.log.events.append(("sample", i))
        times = np.array([0.0, self.maturity])
        if self.dimension() == 1:
            jump = np.array([0.0, float(v[0]) * 0.25])
            diff = np.array([0.0, float(v[0]) * 0.75])
        else:
            jump = np.stack([np.zeros(v.size), v * 0.25], axis=1)
            diff = np.stack([np.zeros(v.size), v * 0.75], axis=1)
        return StochasticJumpPath(times, diff, jump)


class ScriptedCoupling:
    """Coupling process for the multilevel engine.  ``profile(level, k)`` -> (fine, coarse) terminal values of the k-th
    sample ever simulated at ``level`` (coarse ignored at level 0); ``cost(level)`` -> cost of one sample."""

    def __init__(self, profile, cost, rate=0.02, budget=2_000_000):
        from rpylib.process.process import ProcessRepresentation

        self.model = ScriptedModel(1, rate)
        self.level = 0
        self.profile = profile
        self.cost_fun = cost
        self.log = SharedLog()
        self.counters = SharedCounters()
        self.budget = budget
        self.fine_process = _FineProcessFacade(self)
        self.process_representation = ProcessRepresentation.IDENDITY
        self.maturity = None

    # -- interface used by rpylib.montecarlo.multilevel.engine.Engine ------------------------------------------------
    def initialisation(self, product, max_step_epsilon=None):
        self.maturity = product.maturity
        self.log.events.append(("initialisation", self.level))

    def pre_computation(self, mc_paths, product):
        self.log.events.append(("pre_computation", self.level, int(mc_paths)))

    def one_simulation_cost(self, product):
        return float(self.cost_fun(self.level))

    def reset_one_simulation_cost(self):
        pass

    def next_level(self, mc_paths, path_managers, product, max_step_epsilon=None):
        self.level += 1
        self.log.events.append(("next_level", self.level, int(mc_paths)))
        if path_managers is not None:
            pm = copy.deepcopy(path_managers[-1])

            def coupling_deterministic_path(times):
                z = 0.0 * np.asarray(times, dtype=float)
                return np.array([z, z])

            pm.deterministic_path = coupling_deterministic_path
            path_managers.append(pm)

    def _sample(self):
        k = self.counters.next(self.level)
        if self.counters.total() > self.budget:
            raise BudgetExceeded(f"more than {self.budget} samples simulated")
        fine, coarse = self.profile(self.level, k)
        self.log.events.append(("sample", self.level, k, float(fine), float(coarse)))
        return fine, coarse

    def simulate_one_path(self):
        from rpylib.montecarlo.path import StochasticJumpPath

        fine, _ = self._sample()
        times = np.array([0.0, self.maturity])
        return StochasticJumpPath(times, np.array([0.0, fine * 0.5]), np.array([0.0, fine * 0.5]))

    def simulate_one_path_with_coupling(self):
        from rpylib.montecarlo.path import StochasticJumpPath

        fine, coarse = self._sample()
        times = np.array([0.0, self.maturity])
        diff = np.array([[0.0, fine * 0.5], [0.0, coarse * 0.5]])
        jump = np.array([[0.0, fine * 0.5], [0.0, coarse * 0.5]])
        return StochasticJumpPath(times, diff, jump)


class BudgetExceeded(Exception):
    pass


class SharedCounters:
    def __init__(self):
        self.per_level = {}

    def __deepcopy__(self, memo):
        return self

    def next(self, level):
        k = self.per_level.get(level, 0)
        self.per_level[level] = k + 1
        return k

    def total(self):
        return sum(self.per_level.values())


class _FineProcessFacade:
    """what the engine reads from coupling_process.fine_process"""

    def __init__(self, owner):
        from rpylib.process.process import ProcessRepresentation

        self.owner = owner
        self.process_representation = ProcessRepresentation.IDENDITY

    def deterministic_path(self, times):
        return 0.0 * np.asarray(times, dtype=float)

    def df(self, t):
        return self.owner.model.df(t)
