"""Pricing runs used by the C08 check (importable, and runnable as ``python -m rv.c08_runs <json spec>`` so that the
same seeded run can be repeated in a fresh interpreter).  Also the tracing deque that tags pre-drawn variates."""
from __future__ import annotations

import hashlib
import json
import os
import sys
from collections import deque

import numpy as np

from . import bootstrap  # noqa: F401  (import path, stubs)


# ------------------------------------------------------------------------------------------------------------
# tagged pre-drawn rows
# ------------------------------------------------------------------------------------------------------------
class TaggedRow(list):
    """a pre-drawn row (list of numbers / lists) carrying the identity it was given when it was drawn"""

    uid = None

    def __reduce__(self):
        return (_rebuild_row, (list(self), self.uid))


def _rebuild_row(data, uid):
    r = TaggedRow(data)
    r.uid = uid
    return r


class TracingDeque(deque):
    """deque whose popleft() appends (pid, kind, uid) to the event file named by RV_C08_EVENTS (O_APPEND: safe across
    forked workers); survives dill pickling (every task chunk gets its own copy, which is exactly what is observed)"""

    kind = "?"

    def popleft(self):
        row = super().popleft()
        path = os.environ.get("RV_C08_EVENTS")
        if path:
            fd = os.open(path, os.O_WRONLY | os.O_APPEND | os.O_CREAT, 0o644)
            try:
                os.write(fd, (json.dumps({"pid": os.getpid(), "kind": self.kind, "uid": getattr(row, "uid", None), "len": int(np.size(row))}) + "\n").encode())
            finally:
                os.close(fd)
        return row

    def __reduce__(self):
        return (_rebuild_deque, (list(self), self.kind))


def _rebuild_deque(rows, kind):
    d = TracingDeque(rows)
    d.kind = kind
    return d


_CALLS = [0]


def _event(obj):
    path = os.environ.get("RV_C08_EVENTS")
    if path:
        fd = os.open(path, os.O_WRONLY | os.O_APPEND | os.O_CREAT, 0o644)
        try:
            os.write(fd, (json.dumps(dict(obj, pid=os.getpid())) + "\n").encode())
        finally:
            os.close(fd)


def install_tracing():
    """class-level wrapper around SimulationFixedTimes.pre_computation: the pre-drawn rows are tagged (record only)"""
    from rpylib.process.levyprocess import SimulationFixedTimes

    if getattr(SimulationFixedTimes, "_rv_traced", False):
        return
    orig = SimulationFixedTimes.pre_computation

    def pre_computation(self, mc_paths, product):
        orig(self, mc_paths, product)
        _CALLS[0] += 1
        call = f"{os.getpid()}.{_CALLS[0]}"
        for name, kind in (("_brownian_increments", "brownian"), ("_poisson_rv", "poisson")):
            rows = getattr(self, name)
            tagged = TracingDeque()
            tagged.kind = kind
            for i, row in enumerate(rows):
                tr = TaggedRow(row)
                tr.uid = f"{call}.{kind}.{i}"
                tagged.append(tr)
            setattr(self, name, tagged)
            dup, example = 0, None
            if kind == "brownian":
                # rows of continuous variates: two rows with the same content were not drawn independently
                seen = {}
                for i, row in enumerate(tagged):
                    key = np.asarray(row, dtype=float).tobytes()
                    if key in seen:
                        dup += 1
                        example = example or [seen[key], i]
                    else:
                        seen[key] = i
            _event({"kind": "predraw", "rows": kind, "call": call, "n": len(tagged), "duplicate_rows": dup, "example": example})

    SimulationFixedTimes.pre_computation = pre_computation
    SimulationFixedTimes._rv_traced = True
    # every uniform variate handed to a consumer (coupling decisions, samplers): record-only wrapper at class level; a value handed out
    # twice means two consumers were served the same variate (numpy never repeats a double within a run)
    from rpylib.distribution.univariate.uniform import Uniform

    orig_sample = Uniform.sample

    def sample(self, size=1):
        out = orig_sample(self, size)
        path = os.environ.get("RV_C08_EVENTS")
        if path:
            vals = np.atleast_1d(np.asarray(out, dtype=float)).reshape(-1)
            fd = os.open(path, os.O_WRONLY | os.O_APPEND | os.O_CREAT, 0o644)
            try:
                os.write(fd, (json.dumps({"pid": os.getpid(), "kind": "uniform", "vals": [v.hex() for v in vals.tolist()]}) + "\n").encode())
            finally:
                os.close(fd)
        return out

    Uniform.sample = sample
    # every call of the Poisson sampler (record only): the number of jump counts drawn, to be set against the number consumed
    from rpylib.distribution.univariate.poisson import Poisson

    orig_poisson = Poisson.sample

    def poisson_sample(self, size=1):
        out = orig_poisson(self, size)
        _event({"kind": "poisson_draw", "n": int(np.size(out))})
        return out

    Poisson.sample = poisson_sample
    # every normal variate drawn from numpy's global generator (record only): in the jump-time modes nothing is pre-drawn, a normal variate
    # is consumed by the path that draws it
    orig_normal = np.random.normal

    def normal(*a, **k):
        out = orig_normal(*a, **k)
        vals = np.atleast_1d(np.asarray(out, dtype=float)).reshape(-1)
        if vals.size <= 4096:
            _event({"kind": "normal", "vals": [v.hex() for v in vals.tolist()]})
        return out

    np.random.normal = normal


def install_seed_tracing():
    """record-only wrappers on numpy.random.seed / random.seed that append (pid, generator, state digest before / after) to the
    event file; installed before the pools are forked, hence active in the worker processes too"""
    import random

    if getattr(np.random, "_rv_seed_traced", False):
        return
    np_seed, py_seed = np.random.seed, random.seed

    def log(gen, before, after):
        path = os.environ.get("RV_C08_EVENTS")
        if path:
            fd = os.open(path, os.O_WRONLY | os.O_APPEND | os.O_CREAT, 0o644)
            try:
                os.write(fd, (json.dumps({"pid": os.getpid(), "kind": "seeding", "gen": gen, "before": before, "after": after}) + "\n").encode())
            finally:
                os.close(fd)

    def traced_np_seed(seed=None):
        before = _np_digest()
        np_seed(seed)
        log("numpy", before, _np_digest())

    def traced_py_seed(a=None, *args, **kw):
        before = _py_digest()
        py_seed(a, *args, **kw)
        log("random", before, _py_digest())

    np.random.seed = traced_np_seed
    random.seed = traced_py_seed
    # the state of the global generator saved / put back (a restore is a re-seeding by another name)
    np_get, np_set = np.random.get_state, np.random.set_state

    def traced_get_state(*a, **k):
        out = np_get(*a, **k)
        d = _np_digest()
        _event({"kind": "state", "op": "get", "before": d, "after": d})
        return out

    def traced_set_state(state, *a, **k):
        before = _np_digest()
        np_set(state, *a, **k)
        _event({"kind": "state", "op": "set", "before": before, "after": _np_digest()})

    np.random.get_state = traced_get_state
    np.random.set_state = traced_set_state
    np.random._rv_seed_traced = True


# ------------------------------------------------------------------------------------------------------------
# seed audit
# ------------------------------------------------------------------------------------------------------------
class SeedAudit:
    def __init__(self):
        self.events = []      # (generator, seed, digest_after, digest_before)

    def install(self):
        import random

        self._np_seed, self._py_seed = np.random.seed, random.seed
        audit = self

        def np_seed(seed=None):
            before = _np_digest()
            audit._np_seed(seed)
            audit.events.append(("numpy", None if seed is None else int(seed), _np_digest(), before))

        def py_seed(a=None, *args, **kw):
            before = _py_digest()
            audit._py_seed(a, *args, **kw)
            audit.events.append(("random", None if a is None else int(a), _py_digest(), before))

        np.random.seed = np_seed
        random.seed = py_seed

    def restore(self):
        import random

        np.random.seed, random.seed = self._np_seed, self._py_seed

    def reuse(self):
        """seedings that put a generator back into a state installed earlier in the run from which variates were drawn"""
        out = []
        for gen in ("numpy", "random"):
            ev = [e for e in self.events if e[0] == gen]
            installed = {}
            for i, (_, seed, after, before) in enumerate(ev):
                if i > 0:
                    prev_after = ev[i - 1][2]
                    if before != prev_after:
                        installed[prev_after] = True        # variates were drawn from the previously installed state
                if after in installed:
                    out.append({"generator": gen, "seed": seed, "seeding_number": i})
                installed.setdefault(after, False)
        return out


_NP_GET_STATE = np.random.get_state      # (the original: np.random.get_state itself is wrapped by install_seed_tracing)


def _np_digest():
    st = _NP_GET_STATE()
    return hashlib.sha1(st[1].tobytes() + str(st[2:]).encode()).hexdigest()[:16]


def _py_digest():
    import random

    return hashlib.sha1(repr(random.getstate()).encode()).hexdigest()[:16]


# ------------------------------------------------------------------------------------------------------------
# the runs
# ------------------------------------------------------------------------------------------------------------
def _product(stochastic_dates, T=1.0, multi=False, monthly=False):
    from rpylib.product.product import Product
    from rpylib.product.underlying import Spot, Mean, Asian, Discretisation
    from rpylib.product.payoff import Forward, PayoffDates

    pay = Forward(strike=0.0)
    if stochastic_dates:
        pay.payoff_dates_type = PayoffDates.STOCHASTIC
    und = Mean() if multi else (Asian(Discretisation.MONTHLY) if monthly else Spot())
    return Product(payoff_underlying=und, payoff=pay, maturity=T)


def _copula_model():
    """2-d Clayton copula of two exponential HEM margins, both with a Brownian component (continuous payoff values)"""
    from . import workloads as W

    m1 = {"family": "HEM", "params": {"sigma": 0.15, "p": 0.6, "eta1": 25.0, "eta2": 30.0, "intensity": 4.0}, "exp": True, "spot": 100.0, "r": 0.03, "d": 0.0}
    m2 = {"family": "HEM", "params": {"sigma": 0.2, "p": 0.4, "eta1": 20.0, "eta2": 18.0, "intensity": 3.0}, "exp": True, "spot": 80.0, "r": 0.03, "d": 0.0}
    return W.build_copula_model({"margins": [m1, m2], "copula": {"kind": "clayton", "theta": 1.5, "eta": 0.4}})


def _seed_of(spec):
    """the seed the way the spec says it is written: a Python int, or a numpy integer (seeds taken from an array)"""
    sd = spec.get("seed")
    if sd is not None and spec.get("seed_type") == "numpy":
        return np.int64(sd)
    return sd


def do_run(spec):
    """spec: {"engine": "standard"|"mlmc"|"mlmc-fixed", "process": "bs"|"hem"|"merton"|"chain", "paths": N, "workers": k,
    "seed": s|None, "stochastic_dates": bool}.  Returns the stored payoff samples (list per level) and their digest."""
    import logging
    import warnings

    warnings.simplefilter("ignore")
    logging.disable(logging.CRITICAL)
    from . import workloads as W, gridspec as G, chain as C
    from rpylib.process.levyprocess import LevyProcess

    fixed = {"bs": {"family": "BS", "params": {"sigma": 0.25}, "exp": True, "spot": 100.0, "r": 0.03, "d": 0.01},
             "hem": {"family": "HEM", "params": {"sigma": 0.15, "p": 0.6, "eta1": 25.0, "eta2": 30.0, "intensity": 4.0}, "exp": True, "spot": 100.0, "r": 0.03, "d": 0.0},
             "merton": {"family": "MERTON", "params": {"sigma": 0.1, "mu_j": 0.02, "sigma_j": 0.1, "intensity": 3.0}, "exp": True, "spot": 50.0, "r": 0.02, "d": 0.0}}
    product = _product(spec.get("stochastic_dates", False), multi=spec["process"] == "copula", monthly=bool(spec.get("monthly")))
    if spec["engine"] == "standard":
        from rpylib.montecarlo.configuration import ConfigurationStandard
        from rpylib.montecarlo.standard.engine import Engine

        if spec["process"] == "chain":
            model = W.build_model(fixed["hem"])
            grid = G.build_grid({"ctor": "fixed", "dim": 1, "h": 0.05, "n": 13}, model)
            from rpylib.process.markovchain.markovchain import MarkovChainProcess

            proc = MarkovChainProcess(model=model, method=C.sampling_method(spec.get("method", "BINARYSEARCHTREEADAPTED1D")), grid=grid)
        elif spec["process"] == "copula":
            from rpylib.process.markovchain.markovchainlevycopula import MarkovChainLevyCopula

            model = _copula_model()
            grid = G.build_grid({"ctor": "fixed", "dim": 2, "h": 0.06, "n": 7}, model)
            proc = MarkovChainLevyCopula(levy_copula_model=model, grid=grid, method=C.sampling_method("BINARYSEARCHTREEADAPTED"))
        else:
            proc = LevyProcess(W.build_model(fixed[spec["process"]]))
        conf = ConfigurationStandard(mc_paths=spec["paths"], seed=_seed_of(spec), nb_of_processes=spec["workers"])
        eng = Engine(conf, proc)

        def price_once():
            st = eng.price(product)
            lv = [np.asarray(st._payoff_statistics.stats, dtype=float).reshape(-1).copy()]
            return lv, [lv[0]]
    else:
        from rpylib.montecarlo.configuration import ConfigurationMultiLevel, ConvergenceRates
        from rpylib.montecarlo.multilevel.engine import Engine
        from rpylib.process.coupling.couplingmarkovchain import CouplingMarkovChain

        if spec["process"] == "copula":
            from rpylib.process.coupling.couplinglevycopula import CouplingProcessLevyCopula

            model = _copula_model()
            grid = G.build_grid({"ctor": "fixed", "dim": 2, "h": 0.12, "n": 5}, model)
            cp = CouplingProcessLevyCopula(levy_copula_model=model, grid=grid, method=C.sampling_method("BINARYSEARCHTREEADAPTED"))
        else:
            model = W.build_model(fixed["hem"])
            grid = G.build_grid({"ctor": "fixed", "dim": 1, "h": 0.1, "n": 9}, model)
            cp = CouplingMarkovChain(model=model, method=C.sampling_method(spec.get("method", "BINARYSEARCHTREEADAPTED1D")), grid=grid)
        conf = ConfigurationMultiLevel(convergence_rates=ConvergenceRates(alpha=1.0, beta=2.0, gamma=1.0), initial_level=2 if spec["process"] != "copula" else 1,
                                       maximum_level=3 if spec["process"] != "copula" else 2, initial_mc_paths=spec["paths"], seed=_seed_of(spec), nb_of_processes=spec["workers"])
        eng = Engine(conf, cp)

        def price_once():
            st = eng.price_with_constant_mc_paths_and_level(product) if spec["engine"] == "mlmc-fixed" else eng.price(product, spec.get("rmse", 0.5))
            lv, fn = [], []
            for l in range(len(st.mc_statistics)):
                arr = np.asarray(st.mc_statistics[l]._payoff_statistics.stats, dtype=float)
                lv.append(arr.reshape(-1).copy())
                fn.append(arr[:, 0, 0].copy())
            return lv, fn

    levels, fine = price_once()
    digest = hashlib.sha1(b"".join(a.tobytes() for a in levels)).hexdigest()
    out = {"digest": digest, "levels": [a.tolist() for a in levels], "fine": [a.tolist() for a in fine]}
    if spec.get("reprice"):
        # the same engine / configuration objects priced a second time in the same interpreter, generators used in between
        import random

        np.random.seed(424242)
        np.random.normal(size=11)
        random.seed(77)
        random.random()
        levels2, _ = price_once()
        out["digest2"] = hashlib.sha1(b"".join(a.tobytes() for a in levels2)).hexdigest()
        out["levels2"] = [a.tolist() for a in levels2]
    return out


if __name__ == "__main__":
    spec = json.loads(sys.argv[1])
    if spec.get("trace"):
        install_tracing()
        install_seed_tracing()
    out = do_run(spec)
    print("RESULT " + json.dumps({"digest": out["digest"], "n": [len(a) for a in out["levels"]], "levels": out["levels"], "fine": out["fine"]}))
