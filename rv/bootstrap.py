"""Process bootstrap for every check: environment, import path, third-party contracts library.

* ``SYMPY_GROUND_TYPES=python`` must be set before anything imports sympy because the harness puts
  a stub module called ``gmpy2`` on ``sys.path`` (rpylib imports ``gmpy2.qdiv``; gmpy2 is absent here).
* ``VERIF_REPO`` selects the tree whose ``rpylib`` package is executed (default ``/repo``); it is
  put in front of ``sys.path`` so that it wins over the development-mode install of /venv.  Because
  Python source is executed straight from that tree, "rebuild from the current working tree" is a
  fresh interpreter per check (every check and every shard is a fresh process).
* ``RPYLIB_VERIF=1`` is the (unused by rpylib: no source hook exists) guard recorded in MANIFEST.hooks.
"""
from __future__ import annotations

import fcntl
import os
import subprocess
import sys

VERIF = os.path.dirname(os.path.dirname(os.path.abspath(__file__)))
REPO = os.path.abspath(os.environ.get("VERIF_REPO", "/repo"))
DEPS = os.path.join(VERIF, ".deps")
STUBS = os.path.join(VERIF, "stubs")
WHEELS = "/opt/veriftools/wheels"
PYTHON = "/venv/bin/python"


def setup_env() -> None:
    os.environ.setdefault("SYMPY_GROUND_TYPES", "python")
    os.environ.setdefault("RPYLIB_VERIF", "1")
    os.environ.setdefault("OMP_NUM_THREADS", "1")
    os.environ.setdefault("OPENBLAS_NUM_THREADS", "1")
    os.environ.setdefault("MKL_NUM_THREADS", "1")
    for p in (STUBS, REPO):
        if p in sys.path:
            sys.path.remove(p)
    sys.path.insert(0, STUBS)
    sys.path.insert(0, REPO)
    if DEPS not in sys.path and os.path.isdir(DEPS):
        sys.path.append(DEPS)


def ensure_deps() -> None:
    """Install icontract + deal into /verif/.deps from the offline wheelhouse if they are missing."""
    marker = os.path.join(DEPS, "icontract")
    if not os.path.isdir(marker):
        os.makedirs(DEPS, exist_ok=True)
        lock = os.path.join(VERIF, ".lock")
        with open(lock, "w") as fh:
            fcntl.flock(fh, fcntl.LOCK_EX)
            try:
                if not os.path.isdir(marker):
                    subprocess.run(
                        [PYTHON, "-m", "pip", "install", "-q", "--no-index", "--find-links", WHEELS,
                         "--target", DEPS, "icontract", "deal"],
                        check=True, stdout=subprocess.DEVNULL, stderr=subprocess.STDOUT,
                    )
            finally:
                fcntl.flock(fh, fcntl.LOCK_UN)
    if DEPS not in sys.path:
        sys.path.append(DEPS)


def repo_identity() -> dict:
    """Which tree is being executed (written into the evidence)."""
    import rpylib

    out = {"repo": REPO, "rpylib_file": os.path.dirname(os.path.abspath(rpylib.__file__))}
    try:
        out["head"] = subprocess.run(["git", "-C", REPO, "rev-parse", "HEAD"], capture_output=True,
                                     text=True, timeout=20).stdout.strip()
        out["dirty"] = bool(subprocess.run(["git", "-C", REPO, "status", "--porcelain", "--", "rpylib"],
                                           capture_output=True, text=True, timeout=20).stdout.strip())
    except Exception:  # noqa: BLE001
        pass
    return out


setup_env()
