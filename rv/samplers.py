"""Uniform access to the single-variate entry point of every rpylib discrete sampler, scripted
replacements of the variate sources, and the exact law measurement built on rv.piecewise."""
from __future__ import annotations

import contextlib
import math
from unittest import mock

import numpy as np

from . import piecewise as PW

RAW_METHODS = ["ALIAS", "TABLE", "BINARYSEARCHTREE", "HUFFMANNTREE"]


def make_states(pivot):
    """Same closure shape as samplingfactory.create_sampling_method builds for a two-sided chain."""
    def states(k):
        return -pivot + np.array(k)

    return states


def build_raw(method, p, pivot):
    from rpylib.distribution.variate.alias import AliasMethod
    from rpylib.distribution.variate.table import TableMethod
    from rpylib.distribution.variate.binarysearchtree import BinarySearchTree
    from rpylib.distribution.variate.huffmantree import HuffmanTree

    cls = {"ALIAS": AliasMethod, "TABLE": TableMethod, "BINARYSEARCHTREE": BinarySearchTree, "HUFFMANNTREE": HuffmanTree}[method]
    return cls(np.array(p, dtype=float), make_states(pivot))


@contextlib.contextmanager
def scripted_uniform(values):
    """Replace Uniform.sample (class level) by a list-driven source; yields the list of served sizes."""
    from rpylib.distribution.univariate.uniform import Uniform

    it = iter(values)
    served = []

    def sample(self, size=1):
        self.sampling_cost += size
        out = np.array([next(it) for _ in range(size)], dtype=float)
        served.append(size)
        return out

    with mock.patch.object(Uniform, "sample", sample):
        yield served


@contextlib.contextmanager
def scripted_getrandbits(words):
    import random

    it = iter(words)

    def getrandbits(k):
        return next(it)

    with mock.patch.object(random, "getrandbits", getrandbits):
        yield


def _scalar(x):
    """canonical hashable form of a returned state (int, numpy scalar, tuple of ints, 0-d / 1-d array)"""
    if isinstance(x, tuple):
        return tuple(int(v) for v in x)
    a = np.asarray(x)
    if a.ndim == 0:
        return int(a)
    if a.size == 1:
        return int(a.reshape(-1)[0])
    return tuple(int(v) for v in a.reshape(-1))


def single_u_function(method, sampler, pivot=0):
    """u -> state increment, through the entry point that takes the uniform (as named in the property)."""
    if method == "ALIAS":
        st = sampler.states
        return lambda u: _scalar(st(int(sampler._draw_with_u(u))))
    if method == "BINARYSEARCHTREE":
        return lambda u: _scalar(sampler.sample_with_u(u))
    if method == "HUFFMANNTREE":
        from rpylib.distribution.variate import huffmantree as H

        st = sampler.states
        return lambda u: _scalar(st(H.sample_with_u(u, sampler.head)[0]))
    if method == "INVERSION":
        return lambda u: _scalar(sampler.sample_with_u(u))
    if method == "BINARYSEARCHTREEADAPTED1D":
        return lambda u: _scalar(sampler.sample_with_u(u))
    if method == "BINARYSEARCHTREEADAPTED":
        return lambda u: _scalar(sampler.sample_with_us(np.array([u], dtype=float))[0])
    raise ValueError(method)


@contextlib.contextmanager
def getrandbits_cell():
    """random.getrandbits replaced once by a reader of a one-element list (cheap per evaluation)."""
    import random

    cell = [0]

    def getrandbits(k):
        return cell[0]

    with mock.patch.object(random, "getrandbits", getrandbits):
        yield cell


def measure_table_fn(fword, K, thorough=False):
    """Exact law of a word -> state map over the 2^32 words: for each residue class of the low byte (the table index)
    integer bisection over the high 24 bits.  Probes per class: a coarse grid, the column starts k/K (+-2); a class that
    is not constant on those gets the dense grid (>= 20 K points) -- the first such class -- or the break points found
    there (+-2) as hints.  Returns ({state: probability}, evaluations, classes measured)."""
    n_hi = 1 << 24
    counts = {}
    evals = 0
    hints = set()
    coarse = [int(v) for v in np.linspace(0, n_hi - 1, 64)]
    # geometric ladders on both sides of every alias-column boundary (see rv.piecewise.standard_probes)
    steps = [0] + [2 ** e for e in range(0, 24)]
    cols = sorted({min(n_hi - 1, max(0, int(round(k * n_hi / K)) + sg * d)) for k in range(K + 1) for d in steps for sg in (-1, 1)})
    dense = [int(v) for v in np.linspace(0, n_hi - 1, max(400, 20 * K))]
    dense_done = False
    for b in range(256):
        def g(hi, b=b):
            return fword((hi << 8) | b)

        c, e, brk = PW.measure_int(g, coarse + cols + [h + d for h in hints for d in (-2, -1, 0, 1, 2)], n_hi)
        evals += e
        if len(c) > 1:
            extra = dense if not dense_done else []
            c, e, brk = PW.measure_int(g, coarse + cols + extra + [h + d for h in set(brk) | hints for d in (-2, -1, 0, 1, 2)], n_hi)
            evals += e
            dense_done = True
            if len(hints) < 4000:
                hints.update(brk)
        for s_, cnt in c.items():
            counts[s_] = counts.get(s_, 0) + cnt
    total = float(1 << 32)
    return {s_: c / total for s_, c in counts.items()}, evals, 256


def measure_sampler(method, sampler, K, target=None, extra_probes=()):
    f = single_u_function(method, sampler)
    return PW.measure(f, PW.standard_probes(K, target, extra=extra_probes))
