"""Seeded generators of model specifications (JSON-able) and builders of the real rpylib objects.

Parameter boxes (documented in DESIGN.md section 3), sampled log-uniformly unless stated:
  HEM    sigma in [0,0.5], p in (0.05,0.95), eta1 in [3,60], eta2 in [3,60], intensity in [0.2,20]
  Merton sigma in [0,0.5], mu_j in [0,0.3], sigma_j in [0.02,0.4], intensity in [0.2,20]
  VG     sigma in [0.05,0.5], nu in [0.02,1], theta in [-0.4,0.4]
  CGMY   c in [0.005,5], g, m in [1.5,40], y in one of the five branches
         y<0: [-1.5,-0.1] | y=0 | 0<y<1: [0.05,0.95] | y=1 | 1<y<2: [1.05,1.9]
"""
from __future__ import annotations

import math

import numpy as np

FAMILIES = ["HEM", "MERTON", "VG", "CGMY"]
CGMY_BRANCHES = ["y<0", "y=0", "0<y<1", "y=1", "1<y<2"]


def _logu(rng, lo, hi):
    return float(math.exp(rng.uniform(math.log(lo), math.log(hi))))


def r6(x):
    """round parameters to 6 significant digits so that specs are short and exactly reproducible from JSON"""
    return float(f"{x:.6g}")


def gen_params(rng, family, branch=None):
    if family == "HEM":
        return {"sigma": r6(rng.choice([0.0, rng.uniform(0.01, 0.5)])), "p": r6(rng.uniform(0.05, 0.95)),
                "eta1": r6(_logu(rng, 3, 60)), "eta2": r6(_logu(rng, 3, 60)), "intensity": r6(_logu(rng, 0.2, 20))}
    if family == "MERTON":
        return {"sigma": r6(rng.choice([0.0, rng.uniform(0.01, 0.5)])), "mu_j": r6(rng.choice([0.0, rng.uniform(0, 0.3)])),
                "sigma_j": r6(_logu(rng, 0.02, 0.4)), "intensity": r6(_logu(rng, 0.2, 20))}
    if family == "VG":
        return {"sigma": r6(rng.uniform(0.05, 0.5)), "nu": r6(_logu(rng, 0.02, 1.0)), "theta": r6(rng.uniform(-0.4, 0.4))}
    if family == "CGMY":
        branch = branch or rng.choice(CGMY_BRANCHES)
        y = {"y<0": lambda: r6(rng.uniform(-1.5, -0.1)), "y=0": lambda: 0.0, "0<y<1": lambda: r6(rng.uniform(0.05, 0.95)),
             "y=1": lambda: 1.0, "1<y<2": lambda: r6(rng.uniform(1.05, 1.9))}[str(branch)]()
        return {"c": r6(_logu(rng, 0.005, 5)), "g": r6(_logu(rng, 1.5, 40)), "m": r6(_logu(rng, 1.5, 40)), "y": y}
    if family == "BS":
        return {"sigma": r6(rng.uniform(0.02, 0.6))}
    raise ValueError(family)


def gen_model_spec(rng, family=None, branch=None, exp=None):
    family = family or str(rng.choice(FAMILIES))
    spec = {"family": family, "params": gen_params(rng, family, branch)}
    if family == "CGMY":
        spec["branch"] = cgmy_branch(spec["params"]["y"])
    if exp is None:
        exp = bool(rng.integers(2))
    spec["exp"] = bool(exp) or family == "BS"
    if spec["exp"]:
        spec.update({"spot": r6(_logu(rng, 5, 500)), "r": r6(rng.uniform(0.0, 0.1)), "d": r6(rng.uniform(0.0, 0.06))})
        if family in ("HEM",):
            # the exponential model needs E[exp(J)] finite: eta1 > 1 (box keeps a margin)
            spec["params"]["eta1"] = max(spec["params"]["eta1"], 1.5)
    return spec


def cgmy_branch(y):
    if y < 0:
        return "y<0"
    if y == 0:
        return "y=0"
    if y < 1:
        return "0<y<1"
    if y == 1:
        return "y=1"
    return "1<y<2"


def fixed_model_specs():
    """A fixed stratified set hit by every run (one per family / CGMY branch, both Levy and exponential)."""
    base = [
        {"family": "HEM", "params": {"sigma": 0.1, "p": 0.6, "eta1": 25.0, "eta2": 40.0, "intensity": 5.0}},
        {"family": "HEM", "params": {"sigma": 0.3, "p": 0.3, "eta1": 8.0, "eta2": 5.0, "intensity": 1.5}},
        {"family": "MERTON", "params": {"sigma": 0.1, "mu_j": 0.01, "sigma_j": 0.05, "intensity": 5.0}},
        {"family": "MERTON", "params": {"sigma": 0.0, "mu_j": 0.2, "sigma_j": 0.3, "intensity": 0.8}},
        {"family": "VG", "params": {"sigma": 0.1, "nu": 0.02, "theta": 0.1}},
        {"family": "VG", "params": {"sigma": 0.25, "nu": 0.5, "theta": -0.3}},
        {"family": "CGMY", "params": {"c": 0.5, "g": 6.0, "m": 9.0, "y": -0.7}},
        {"family": "CGMY", "params": {"c": 1.0, "g": 15.0, "m": 20.0, "y": 0.0}},
        {"family": "CGMY", "params": {"c": 1.0, "g": 15.0, "m": 20.0, "y": 0.5}},
        {"family": "CGMY", "params": {"c": 0.2, "g": 5.0, "m": 12.0, "y": 1.0}},
        {"family": "CGMY", "params": {"c": 0.04945, "g": 10.0, "m": 8.0, "y": 1.1}},
        {"family": "CGMY", "params": {"c": 0.1, "g": 4.0, "m": 7.0, "y": 1.6}},
    ]
    out = []
    for b in base:
        for exp in (False, True):
            s = {"family": b["family"], "params": dict(b["params"]), "exp": exp}
            if b["family"] == "CGMY":
                s["branch"] = cgmy_branch(b["params"]["y"])
            if exp:
                s.update({"spot": 100.0, "r": 0.05, "d": 0.02})
            out.append(s)
    return out


def model_label(spec):
    lab = spec["family"]
    if spec["family"] == "CGMY":
        lab += "[" + spec.get("branch", cgmy_branch(spec["params"]["y"])) + "]"
    return lab + ("-exp" if spec.get("exp") else "-levy")


def build_model(spec):
    """Build the real rpylib model through its public classes."""
    from rpylib.model.levymodel.mixed.hem import HEMParameters, HEMModel, ExponentialOfHEMModel
    from rpylib.model.levymodel.mixed.merton import MertonParameters, MertonModel, ExponentialOfMertonModel
    from rpylib.model.levymodel.purejump.cgmy import CGMYParameters, CGMYModel, ExponentialOfCGMYModel
    from rpylib.model.levymodel.purejump.variancegamma import (VGParameters, VarianceGammaModel,
                                                               ExponentialOfVarianceGammaModel)
    from rpylib.model.levymodel.mixed.blackscholes import BlackScholesParameters, BlackScholesModel

    table = {
        "HEM": (HEMParameters, HEMModel, ExponentialOfHEMModel),
        "MERTON": (MertonParameters, MertonModel, ExponentialOfMertonModel),
        "VG": (VGParameters, VarianceGammaModel, ExponentialOfVarianceGammaModel),
        "CGMY": (CGMYParameters, CGMYModel, ExponentialOfCGMYModel),
        "BS": (BlackScholesParameters, None, BlackScholesModel),
    }
    P, M, E = table[spec["family"]]
    params = P(**spec["params"])
    if spec.get("exp"):
        return E(spot=spec["spot"], r=spec["r"], d=spec["d"], parameters=params)
    return M(parameters=params)


def build_model_via_update(spec, start_spec, order_seed=0):
    """the same model as build_model(spec), but its parameter object is first constructed with the values of ``start_spec`` (same
    family), then assigned the final values one by one and re-initialised -- the way the calibration helpers move a model"""
    import numpy as _np

    tmp = build_model(dict(start_spec, exp=False) if start_spec["family"] != "BS" else start_spec)
    params = tmp.parameters
    names = list(spec["params"])
    for k in _np.random.default_rng(order_seed).permutation(names):
        setattr(params, str(k), spec["params"][str(k)])
    params.initialisation()
    full = build_model(spec)
    if spec["family"] == "BS" or spec.get("exp"):
        return type(full)(spot=spec["spot"], r=spec["r"], d=spec["d"], parameters=params)
    return type(full)(parameters=params)


def density_breakpoints(spec):
    """Points where the density has a kink / narrow bump (mathematical structure of the family, used only to
    help the quadrature oracle split its integration range)."""
    if spec["family"] == "MERTON":
        mu, s = spec["params"]["mu_j"], spec["params"]["sigma_j"]
        return [mu + k * s for k in (-12, -6, -3, -1, 0, 1, 3, 6, 12)]
    return []


def resolution_floor(spec):
    """smallest chain intensity that the closed-form cell masses can resolve: 1e-9 in absolute terms, and -- for compound-Poisson measures,
    whose masses are differences of distribution functions with an absolute rounding of ~1e-16 x the total intensity of the MODEL -- a
    millionth of that total intensity (a grid that carries less of the model's mass than that is outside the domain)"""
    margins = spec["margins"] if "margins" in spec else [spec]
    tot = max([float(m["params"]["intensity"]) for m in margins if m["family"] in ("HEM", "MERTON")] + [0.0])
    return max(1e-9, 1e-6 * tot)


def activity_index(spec):
    """alpha such that nu(x) ~ |x|^(-1-alpha) near 0 (minus infinity for finite-activity compound Poisson)."""
    if spec["family"] in ("HEM", "MERTON", "BS"):
        return -1.0  # bounded density near 0
    if spec["family"] == "VG":
        return 0.0
    return float(spec["params"]["y"])


# ------------------------------------------------------------------------------------------------
# Levy copula models
# ------------------------------------------------------------------------------------------------
def gen_copula_spec(rng, kind=None):
    kind = kind or str(rng.choice(["clayton", "clayton", "independent", "dependent"]))
    if kind == "clayton":
        eta = float(rng.choice([0.0, 1.0, r6(rng.uniform(0.05, 0.95)), r6(rng.uniform(0.05, 0.95))]))
        return {"kind": "clayton", "theta": r6(_logu(rng, 0.2, 8.0)), "eta": eta}
    return {"kind": kind}


def build_copula(cspec):
    from rpylib.distribution.levycopula import ClaytonCopula, IndependentComponentsCopula, DependentComponentsCopula

    if cspec["kind"] == "clayton":
        return ClaytonCopula(theta=cspec["theta"], eta=cspec["eta"])
    if cspec["kind"] == "independent":
        return IndependentComponentsCopula()
    return DependentComponentsCopula()


def gen_copula_model_spec(rng, dim=None, kind=None, families=None, exp=False):
    dim = dim or int(rng.choice([2, 3]))
    fams = families or [str(rng.choice(FAMILIES)) for _ in range(dim)]
    margins = [gen_model_spec(rng, f, exp=exp) for f in fams]
    return {"margins": margins, "copula": gen_copula_spec(rng, kind)}


def limit_variation(rng, cmspec, allow_infinite, y_hi=0.95):
    """copula-model specs used by the chain checks: CGMY margins with y >= 1 are moved to 0 < y < 1 unless ``allow_infinite``;
    with ``allow_infinite`` one margin is made a CGMY margin with 1 < y < 2 (an infinite-variation model) if none is"""
    ms_list = cmspec["margins"]
    if not allow_infinite:
        for ms in ms_list:
            if ms["family"] == "CGMY" and ms["params"]["y"] >= 1.0:
                ms["params"]["y"] = r6(rng.uniform(0.05, y_hi))
                ms["branch"] = "0<y<1"
        return False
    if not any(ms["family"] == "CGMY" and ms["params"]["y"] >= 1.0 for ms in ms_list):
        k = int(rng.integers(len(ms_list)))
        keep = {key: ms_list[k][key] for key in ("exp", "spot", "r", "d") if key in ms_list[k]}
        new = gen_model_spec(rng, "CGMY", "1<y<2", exp=False)
        new.update(keep)
        new["params"]["y"] = r6(rng.uniform(1.05, 1.7))
        ms_list[k] = new
    for ms in ms_list:
        if ms["family"] == "CGMY" and ms["params"]["y"] >= 1.0:
            ms["params"]["y"] = min(ms["params"]["y"], 1.7) if ms["params"]["y"] > 1.0 else 1.0
    return True


def build_copula_model(cmspec):
    from rpylib.model.levycopulamodel import LevyCopulaModel

    return LevyCopulaModel(models=[build_model(m) for m in cmspec["margins"]], copula=build_copula(cmspec["copula"]))


def copula_label(cmspec):
    c = cmspec["copula"]
    lab = c["kind"]
    if c["kind"] == "clayton":
        lab += "[eta=0]" if c["eta"] == 0 else ("[eta=1]" if c["eta"] == 1 else "")
    return f"{lab}-{len(cmspec['margins'])}d"


def build_any_model(spec):
    return build_copula_model(spec) if "margins" in spec else build_model(spec)


def any_label(spec):
    return copula_label(spec) if "margins" in spec else model_label(spec)
