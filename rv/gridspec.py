"""JSON-able specifications of CTMC grids and builders going through the public constructors."""
from __future__ import annotations

import numpy as np

from . import workloads as W

CTORS_1D = ["uniform", "fixed", "geometric", "geometric_bounds", "probstep", "credit"]
CTORS_ND = ["uniform", "fixed", "geometric", "geometric_bounds", "credit", "credit_asym"]


class OutsideDomain(Exception):
    """The generated arguments fall outside the domain the property quantifies over (e.g. fewer than two
    states on a half-axis); counted as a skip, never judged."""


def gen_grid_spec(rng, ctor, dim=1):
    g = {"ctor": ctor, "dim": dim}
    if ctor == "uniform":
        g.update({"h_div": W.r6(W._logu(rng, 2.5, 40.0)), "p": float(rng.choice([0.9, 0.99, 0.999, 0.99999, 0.999999]))})
        if rng.random() < 0.2:
            g["h_div"] = W.r6(W._logu(rng, 0.6, 2.5))        # a spatial step of the size of the truncation bounds (coarsest levels)
    elif ctor == "fixed":
        g.update({"h": W.r6(W._logu(rng, 0.005, 0.3)), "n": int(rng.integers(5, 42))})
    elif ctor == "geometric":
        g.update({"h_div": W.r6(W._logu(rng, 3.0, 200.0)), "n_side": int(rng.integers(2, 13)),
                  "p": float(rng.choice([0.9, 0.99, 0.99999]))})
        if rng.random() < 0.15:
            g["h_div"] = W.r6(W._logu(rng, 0.6, 3.0))
    elif ctor == "geometric_bounds":
        l, r = -W.r6(W._logu(rng, 0.2, 3.0)), W.r6(W._logu(rng, 0.2, 3.0))
        g.update({"l": l, "r": r, "h": W.r6(min(-l, r) / W._logu(rng, 3.0, 100.0)), "n_side": int(rng.integers(2, 13))})
        if rng.random() < 0.15:
            g["h"] = W.r6(min(-l, r) / W._logu(rng, 0.7, 3.0))        # a spatial step of the size of the bounds
    elif ctor == "probstep":
        g.update({"h": W.r6(W._logu(rng, 0.005, 0.1)), "pstep": W.r6(W._logu(rng, 0.01, 0.2))})
    elif ctor in ("credit", "credit_asym"):
        g.update({"h_div": W.r6(W._logu(rng, 4.0, 60.0)), "a_frac": [W.r6(rng.uniform(0.05, 0.95)) for _ in range(max(dim, 1))]})
    elif ctor == "per_axis":
        h = W.r6(W._logu(rng, 0.005, 0.2))
        g.update({"h": h, "n_left": int(rng.integers(2, 9)), "n_right": [int(rng.integers(2, 9)) for _ in range(dim)],
                  "l": [-W.r6(h * W._logu(rng, 3.0, 40.0)) for _ in range(dim)], "r": [W.r6(h * W._logu(rng, 3.0, 40.0)) for _ in range(dim)],
                  "spacing": [str(rng.choice(["linear", "geometric"])) for _ in range(dim)]})
    else:
        raise ValueError(ctor)
    return g


def _truncation(model, h, p=0.99999):
    from rpylib.grid.spatial import compute_truncation

    return compute_truncation(model=model, h=h, truncation_probability=p)


def build_grid(g, model):
    """Build the grid through the public constructor named in the spec; raise OutsideDomain when the
    arguments do not give at least two states on each half-axis (or l < a < -h for credit grids)."""
    from rpylib.grid import spatial as S

    ctor, dim = g["ctor"], g["dim"]
    if ctor in ("uniform", "geometric", "credit", "credit_asym"):
        p = g.get("p", 0.99999)
        try:
            l0, r0 = _truncation(model, 0.01, p)
            h = W.r6(min(-l0, r0) / g["h_div"])
            l, r = _truncation(model, h, p)
        except Exception as exc:  # noqa: BLE001  root search has no sign change for these arguments
            raise OutsideDomain(f"truncation search failed: {type(exc).__name__}") from exc
        g["_h"] = h
        if ctor == "uniform":
            # (a step of the size of the bounds is inside the domain: the constructor returns a well-formed grid or refuses)
            return S.CTMCUniformGrid(h=h, model=model, truncation_probability=p)
        if ctor == "geometric":
            return S.CTMCGridGeometric(h=h, model=model, nb_of_points_on_each_side=g["n_side"], truncation_probability=p)
        # credit
        levels = [float(-h - f * (abs(l) - h)) for f in g["a_frac"]]
        if g.get("boundary_threshold"):
            # thresholds exactly AT the left truncation / at -h: the constructor has to refuse them or return a well-formed grid
            levels = [float(l) if f >= 0.5 else float(-h) for f in g["a_frac"]]
        elif any(not (l < a < -h) for a in levels):
            raise OutsideDomain("threshold not strictly between l and -h")
        g["_levels"] = levels
        if dim == 1:
            return S.CTMCCredit(h=h, level_a=levels[0], model=model)
        return S.CTMCCredit(h=h, level_a=levels, model=model, symmetric_grid=(ctor == "credit"))
    if ctor == "fixed":
        g["_h"] = g["h"]
        return S.CTMCUniformGrid.create_from_fixed_nb_of_points(h=g["h"], nb_of_points=g["n"], dimension=dim)
    if ctor == "geometric_bounds":
        g["_h"] = g["h"]
        return S.CTMCGridGeometric.create_with_bounds(h=g["h"], truncations=(g["l"], g["r"]), dimension=dim,
                                                      nb_of_points_on_each_side=g["n_side"])
    if ctor == "per_axis":
        # the base constructor given one array per axis, each with its own bounds (same number of states left of 0: one origin index)
        g["_h"] = h = g["h"]
        axes = []
        for k in range(dim):
            sp = np.geomspace if g["spacing"][k] == "geometric" else np.linspace
            left = -sp(-g["l"][k], h, g["n_left"])
            right = sp(h, g["r"][k], g["n_right"][k])
            axes.append(np.concatenate([left, [0.0], right]))
        return S.CTMCGrid(h=h, origin_coordinate=g["n_left"], axes=axes)
    if ctor == "probstep":
        g["_h"] = g["h"]
        return S.CTMCGridProbabilityStep(h=g["h"], model=model, minimum_probability_step=g["pstep"], dimension=dim)
    raise ValueError(ctor)
