"""Building the real CTMC approximations through the public constructors, with record-only wrappers on
the factory functions, plus the harness-side (independent) oracle for cells and cell masses."""
from __future__ import annotations

import contextlib
import itertools
import math
from unittest import mock

import numpy as np

from . import gridspec as G, workloads as W
from .oracles import quadrature as Q

METHODS_1D = ["ALIAS", "TABLE", "BINARYSEARCHTREE", "HUFFMANNTREE", "INVERSION", "BINARYSEARCHTREEADAPTED1D"]
METHODS_ND = ["INVERSION", "BINARYSEARCHTREEADAPTED"]


def sampling_method(name):
    from rpylib.distribution.sampling import SamplingMethod

    return getattr(SamplingMethod, name)


class FactoryRecorder:
    """record-only wrappers around samplingfactory.create_q_vector / create_vec_jump_matrix"""

    def __init__(self):
        self.q_vectors = []
        self.jump_vectors = []

    @contextlib.contextmanager
    def installed(self):
        from rpylib.distribution import samplingfactory as SF

        orig_q, orig_j = SF.create_q_vector, SF.create_vec_jump_matrix

        def rec_q(*a, **k):
            out = orig_q(*a, **k)
            self.q_vectors.append(np.array(out, dtype=float, copy=True))
            return out

        def rec_j(*a, **k):
            out = orig_j(*a, **k)
            self.jump_vectors.append(np.array(out, dtype=float, copy=True))
            return out

        with mock.patch.object(SF, "create_q_vector", rec_q), mock.patch.object(SF, "create_vec_jump_matrix", rec_j):
            yield self


def probstep_outside_domain(mspec, model, g, grid=None):
    """probability-step grids place states and cell boundaries at probability mid-points, which are undefined where the measure has
    no mass: one-sided measures and grids with a massless gap are outside the domain (same rule as the C13 check).  Returns the
    reason, or None."""
    if g.get("ctor") != "probstep" or "margins" in mspec:
        return None
    dens = model.levy_triplet.nu.__call__
    al, br = W.activity_index(mspec), W.density_breakpoints(mspec)
    m_r, _ = Q.integrate_xn(dens, g["h"] / 2, math.inf, 0, br, al)
    m_l, _ = Q.integrate_xn(dens, -math.inf, -g["h"] / 2, 0, br, al)
    if min(m_r, m_l) < 1e-6 * (m_r + m_l):
        return "one-sided measure for a probability-step grid"
    if grid is not None:
        ax = np.asarray(grid.axes[0], dtype=float)
        for lo, hi in zip(ax[:-1], ax[1:]):
            if lo * hi > 0:
                mg, _ = Q.integrate_xn(dens, float(lo), float(hi), 0, br, al)
                if mg < 1e-9 * (m_r + m_l):
                    return "probability-step grid with a massless gap (no probability mid-point)"
    return None


def build_grid_and_model(mspec, gspec, nref):
    model = W.build_any_model(mspec)
    g = dict(gspec)
    why = probstep_outside_domain(mspec, model, g)
    if why:
        raise G.OutsideDomain(why)
    grid = G.build_grid(g, model)
    why = probstep_outside_domain(mspec, model, g, grid)      # (the cell boundaries of level 0 are probability mid-points too)
    if why:
        raise G.OutsideDomain(why)
    for _ in range(nref):
        grid.refine()
    return model, grid, g


def build_chain(model, grid, method, is_copula):
    from rpylib.process.markovchain.markovchain import MarkovChainProcess
    from rpylib.process.markovchain.markovchainlevycopula import MarkovChainLevyCopula

    rec = FactoryRecorder()
    with rec.installed():
        if is_copula:
            proc = MarkovChainLevyCopula(levy_copula_model=model, grid=grid, method=sampling_method(method))
        else:
            proc = MarkovChainProcess(model=model, method=sampling_method(method), grid=grid)
    return proc, rec


# ------------------------------------------------------------------------------------------------------
# harness-side cells and masses (1-d)
# ------------------------------------------------------------------------------------------------------
def cell_boundaries_1d(grid, axis_index=0):
    """Boundaries recomputed from the axis alone with the grid's own ``middle``: returns (lo, hi) arrays per state
    (central cell included at the origin index) and the list of structural problems found."""
    axis = np.asarray(grid.axes[axis_index], dtype=float)
    n = axis.size
    problems = []
    mids = []
    for k in range(n - 1):
        if grid.dimension == 1:
            m = float(grid.middle(float(axis[k]), float(axis[k + 1])))
        else:
            m = 0.5 * (float(axis[k]) + float(axis[k + 1]))
            # n-d grids offered by the library use the arithmetic middle; cross-checked against grid.middle below
        mids.append(m)
        if not (axis[k] < m < axis[k + 1]):
            problems.append(f"boundary {m!r} not strictly inside ({axis[k]!r}, {axis[k + 1]!r})")
    lo = np.array([axis[0]] + mids)
    hi = np.array(mids + [axis[-1]])
    return lo, hi, problems


def oracle_rates_1d(mspec, model_input, grid):
    """(rates, errs, lo, hi): quadrature of the INPUT model's own density over each cell (0 for the central cell)."""
    dens = model_input.levy_triplet.nu.__call__
    alpha = W.activity_index(mspec)
    br = W.density_breakpoints(mspec)
    lo, hi, problems = cell_boundaries_1d(grid)
    o = grid.origin_coordinate.value
    rates = np.zeros(lo.size)
    errs = np.zeros(lo.size)
    for k in range(lo.size):
        if k == o:
            continue
        rates[k], errs[k] = Q.integrate_xn(dens, float(lo[k]), float(hi[k]), 0, br, alpha)
    return rates, errs, lo, hi, problems


# ------------------------------------------------------------------------------------------------------
# harness-side Levy-copula rectangle mass, from the definition (Kallsen-Tankov), on truncated margins
# ------------------------------------------------------------------------------------------------------
class CopulaMassOracle:
    """mass of a rectangle under the Levy measure defined by a copula F and marginal tail integrals U_i:
    for a rectangle that straddles 0 in no coordinate, mass = |sum over corners (+-) F^I(U(corner))|;
    a coordinate that straddles 0 is removed by  mass(A x (a,b]) = mass_I(A) - mass(A x (b,inf)) - mass(A x (-inf,a])
    (I = the other coordinates).  U_i by quadrature of the (truncated) marginal densities; F = the library's copula
    callable (judged on its own by C11)."""

    def __init__(self, cmspec, copula, margins_input, truncations):
        self.F = copula
        self.d = len(margins_input)
        self.trunc = [tuple(float(v) for v in t) for t in truncations]
        self.dens = [m.levy_triplet.nu.__call__ for m in margins_input]
        self.alpha = [W.activity_index(ms) for ms in cmspec["margins"]]
        self.br = [W.density_breakpoints(ms) for ms in cmspec["margins"]]
        self._u = {}
        self.max_err = 0.0

    def U(self, i, x):
        """tail integral of the truncated i-th margin: sign(x) nu_i(I(x) cap [l, r])"""
        key = (i, x)
        if key not in self._u:
            l, r = self.trunc[i]
            if x == math.inf or x == -math.inf:
                v = 0.0
            elif x == 0 and self.alpha[i] >= 0 and l <= 0 <= r:
                v = math.inf          # infinite activity: nu((0, inf)) = inf
            elif x >= 0:
                a, b = max(x, l), r
                v, e = (0.0, 0.0) if a >= b else Q.integrate_xn(self.dens[i], a, b, 0, self.br[i], self.alpha[i])
                self.max_err = max(self.max_err, e)
            else:
                a, b = l, min(x, r)
                v, e = (0.0, 0.0) if a >= b else Q.integrate_xn(self.dens[i], a, b, 0, self.br[i], self.alpha[i])
                self.max_err = max(self.max_err, e)
                v = -v
            self._u[key] = v
        return self._u[key]

    def F_margin(self, idx, us):
        """I-margin of the copula at tail-integral values us (|I| = len(idx))."""
        d = self.d
        if len(idx) == d:
            return float(self.F(np.array(us, dtype=float)))
        if len(idx) == 1:
            return float(us[0])
        others = [k for k in range(d) if k not in idx]
        total = 0.0
        for p in itertools.product([-math.inf, math.inf], repeat=len(others)):
            arr = np.zeros(d)
            for k, u in zip(idx, us):
                arr[k] = u
            sgn = 1.0
            for k, v in zip(others, p):
                arr[k] = v
                sgn *= -1.0 if v < 0 else 1.0
            total += sgn * float(self.F(arr))
        return total

    def mass(self, a, b, idx=None):
        idx = list(range(self.d)) if idx is None else list(idx)
        a, b = list(a), list(b)
        for pos, (ai, bi) in enumerate(zip(a, b)):
            if ai < 0 <= bi:      # (a, b] with b = 0 contains the axis x_k = 0
                rest_idx = idx[:pos] + idx[pos + 1:]
                ra, rb = a[:pos] + a[pos + 1:], b[:pos] + b[pos + 1:]
                m_all = self.mass(ra, rb, rest_idx) if rest_idx else None
                if m_all is None:
                    raise ValueError("1-d interval straddling 0 has infinite / undefined mass here")
                a1, b1 = list(a), list(b)
                a1[pos], b1[pos] = bi, math.inf
                a2, b2 = list(a), list(b)
                a2[pos], b2[pos] = -math.inf, ai
                return m_all - self.mass(a1, b1, idx) - self.mass(a2, b2, idx)
        # no straddling coordinate: signed volume of the tail-integral function
        n = len(idx)
        if n == 1:
            i = idx[0]
            return self.U(i, a[0]) - self.U(i, b[0]) if a[0] >= 0 else self.U(i, a[0]) - self.U(i, b[0])
        total = 0.0
        for p in itertools.product([0, 1], repeat=n):
            corner = [ai if pi == 0 else bi for pi, ai, bi in zip(p, a, b)]
            us = [self.U(i, x) for i, x in zip(idx, corner)]
            sign = -1.0 if (n - sum(p)) % 2 else 1.0
            total += sign * self.F_margin(idx, us)
        return (-1.0 if n % 2 else 1.0) * total
