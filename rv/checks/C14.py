"""C14 -- index/state enumerations are bijections.

Monitors: round-trip and exactly-once observers on the real pairing / projection functions, the
signed extensions, the asymmetric 1-d enumeration (under generated call orders), the lazy cartesian
product and the StatesManager enumeration; oracle = exact integer arithmetic and itertools.product.
"""
from __future__ import annotations

import itertools
import math

import numpy as np

ID = "C14"
RULE = ("cases = (pairing class x index window | edge window around m^2, m^2+m, m^2+2m, m^3 | random coordinate "
        "tuples | interval shape (L,R) x query order | tuple of axis sizes | grid shape for the state enumeration); "
        "a case is non-trivial when at least 2 distinct indices/tuples were round-tripped; distinct = distinct "
        "(kind, parameters) signature")
ASSUMPTIONS = [
    "coordinates and indices are explored up to 2e8 / 4e16 (axes of at most 1e8 points), not beyond",
    "gmpy2.qdiv is replaced by fractions.Fraction (exact) because gmpy2 is not installed",
    "HyperbolicPairing is explored up to index 20000 (quick) / 100000 (thorough) (divisor-function cost)",
]
REQUIRED_COUNTERS = ["roundtrip_index", "roundtrip_tuple", "z1d_orders", "lazy_products", "states_enumerations", "states_enumerations_unequal_axis_sizes", "states_enumerations_with_a_storage_limit"]
MIN_NONTRIVIAL = {"quick": 40, "thorough": 200}
THOROUGH_ROUNDS = 6      # the thorough tier runs the generators this many times (different seeds)

PAIRINGS2 = ["Cantor", "RosenbergStrong", "Szudzik", "PepisKalmar", "HyperbolicPairing"]
PAIRINGS3 = ["RosenbergStrong", "Szudzik"]


def gen_cases(tier, seed):
    rng = np.random.default_rng(seed + 1400)
    thorough = tier == "thorough"
    cases = []
    win = 20000 if not thorough else 200000
    for name in PAIRINGS2:
        hi = win if name not in ("HyperbolicPairing", "PepisKalmar") else (20000 if not thorough else 100000)
        if name == "PepisKalmar":
            hi = win
        step = 5000
        for lo in range(0, hi, step):
            cases.append({"kind": "window", "pairing": name, "dim": 2, "lo": lo, "hi": min(hi, lo + step)})
    for name in PAIRINGS3:
        hi = 20000 if not thorough else 100000
        for lo in range(0, hi, 5000):
            cases.append({"kind": "window", "pairing": name, "dim": 3, "lo": lo, "hi": lo + 5000})
    # edge windows: values adjacent to perfect squares / cubes, up to the sizes reachable from accepted grids
    ms2 = [10, 100, 999, 4096, 46341, 10**5, 94906265 // 10, 3 * 10**6, 10**7, 2**25, 94906265, 94906266,
           10**8, 134217728, 2 * 10**8]
    ms2 += [int(x) for x in 10 ** rng.uniform(1, 8.3, size=8 if not thorough else 60)]
    for name in ["Cantor", "RosenbergStrong", "Szudzik"]:
        for m in ms2:
            cases.append({"kind": "edges", "pairing": name, "dim": 2, "m": int(m)})
    ms3 = [5, 17, 100, 1000, 4641, 10**4, 12345, 46415, 10**5, 208063, 3 * 10**5]
    ms3 += [int(x) for x in 10 ** rng.uniform(1, 5.5, size=6 if not thorough else 40)]
    for name in PAIRINGS3:
        for m in ms3:
            cases.append({"kind": "edges", "pairing": name, "dim": 3, "m": int(m)})
    # random tuples -> index -> tuple
    for name in PAIRINGS2[:3] + ["PepisKalmar"]:
        for dim in (2, 3):
            if name == "Cantor" and dim == 3:
                continue
            if name == "PepisKalmar":
                mags = [1, 2] if dim == 2 else [1]
            else:
                mags = [1, 3, 5, 7, 8.3] if dim == 2 else [1, 3, 5]
            for mag in mags:
                cases.append({"kind": "tuples", "pairing": name, "dim": dim, "mag": mag,
                              "seed": int(rng.integers(2**31)), "n": 300 if not thorough else 3000})
    # dimension 4 (offered through the generic recursion / the d-dimensional Rosenberg-Strong formula)
    for name in ["Szudzik", "RosenbergStrong"]:
        cases.append({"kind": "tuples", "pairing": name, "dim": 4, "mag": 1, "seed": int(rng.integers(2**31)), "n": 300 if not thorough else 3000})
        cases.append({"kind": "window", "pairing": name, "dim": 4, "lo": 0, "hi": 3000 if not thorough else 20000})
        cases.append({"kind": "zd", "pairing": name, "dim": 4, "omit": True, "n": 2000 if not thorough else 20000, "seed": int(rng.integers(2**31))})
    # signed extension
    for name in ["Szudzik", "RosenbergStrong", "Cantor"]:
        for dim in (2, 3):
            if name == "Cantor" and dim == 3:
                continue
            for omit in (True, False):
                cases.append({"kind": "zd", "pairing": name, "dim": dim, "omit": omit,
                              "n": 4000 if not thorough else 40000, "seed": int(rng.integers(2**31))})
    # asymmetric 1-d interval enumeration, all shapes
    lim = 14 if not thorough else 40
    for L in range(1, lim + 1):
        for Rr in range(1, lim + 1):
            cases.append({"kind": "z1d", "L": L, "R": Rr, "seed": int(rng.integers(2**31))})
    for (L, Rr) in [(1, 300), (300, 1), (7, 13), (128, 257), (1000, 999), (5, 5000)]:
        cases.append({"kind": "z1d", "L": L, "R": Rr, "seed": int(rng.integers(2**31))})
    # lazy cartesian product
    top = 4 if not thorough else 6
    for sizes in itertools.product(range(1, top + 1), repeat=3):
        cases.append({"kind": "lazy", "sizes": list(sizes)})
    for sizes in itertools.product(range(1, 7), repeat=2):
        cases.append({"kind": "lazy", "sizes": list(sizes)})
    for n in range(1, 9):
        cases.append({"kind": "lazy", "sizes": [n]})
    for _ in range(10 if not thorough else 60):
        d = int(rng.integers(2, 6))
        cases.append({"kind": "lazy", "sizes": [int(s) for s in rng.integers(1, 6, size=d)]})
    # states manager enumeration on real grids
    shapes = [(1, 3, 3), (1, 2, 5), (1, 6, 2), (1, 9, 9), (1, 1, 4), (2, 2, 2), (2, 3, 3), (2, 4, 4), (2, 5, 5),
              (3, 2, 2), (3, 3, 3),
              # origin not centred: the enumeration has to skip indices that fall outside the grid
              (2, 2, 5), (2, 4, 1), (2, 1, 6), (2, 6, 3), (3, 1, 3), (3, 3, 2), (3, 2, 4)]
    if thorough:
        shapes += [(1, 20, 31), (1, 40, 7), (2, 8, 8), (2, 12, 12), (3, 4, 4), (3, 5, 5), (2, 3, 14), (2, 11, 4), (3, 2, 6),
                   (3, 5, 1)]
        for _ in range(20):
            d_ = int(rng.integers(2, 4))
            shapes.append((d_, int(rng.integers(1, 9 if d_ == 2 else 5)), int(rng.integers(1, 9 if d_ == 2 else 5))))
    for d, nl, nr in shapes:
        for order in (["increasing"] if d > 1 else ["increasing", "restart"]):
            cases.append({"kind": "states", "dim": d, "nl": nl, "nr": nr, "order": order})
    # axes of different sizes (same origin index)
    for d, nl, nrs in [(2, 2, [2, 6]), (2, 2, [6, 2]), (2, 1, [3, 5]), (3, 2, [2, 3, 4]), (3, 1, [4, 1, 2])] + \
            ([(2, 3, [9, 4]), (2, 4, [2, 11]), (3, 2, [5, 2, 3]), (3, 3, [1, 4, 2])] if thorough else []):
        cases.append({"kind": "states", "dim": d, "nl": nl, "nr": max(nrs), "nrs": nrs, "order": "increasing"})
    return cases


def _pairing(name):
    from rpylib.distribution import pairing as P

    return getattr(P, name)()


def _project(p, z, dim):
    if dim == 2:
        return p.projection(z)
    return p.projection(z, dim)


def _check_window(R, name, dim, zs, kind):
    """pairing(projection(z)) == z, coordinates non-negative ints, all projections distinct."""
    p = _pairing(name)
    seen = {}
    for z in zs:
        R.hit("roundtrip_index")
        try:
            x = _project(p, z, dim)
            x = tuple(int(v) for v in x)
            if len(x) != dim or any(v < 0 for v in x):
                R.violation(f"{name}{dim}d-projection-invalid-{_zone(z)}", f"{name}.projection({z}, dim={dim}) = {x}: "
                            "not a tuple of non-negative coordinates", {"z": z, "x": x})
                continue
            back = int(p.pairing(x))
        except Exception as exc:  # noqa: BLE001
            R.violation(f"{name}{dim}d-raises-{_zone(z)}", f"{name} projection/pairing raises {type(exc).__name__} "
                        f"at index {z} (dim {dim})", {"z": z, "exc": repr(exc)})
            continue
        if back != z:
            R.violation(f"{name}{dim}d-roundtrip-{_zone(z)}", f"{name}.pairing(projection({z})) = {back} != {z} (dim {dim})",
                        {"z": z, "x": x, "back": back})
        if x in seen and seen[x] != z:
            R.violation(f"{name}{dim}d-not-injective-{_zone(z)}", f"{name}.projection maps {seen[x]} and {z} to {x}",
                        {"z1": seen[x], "z2": z, "x": x})
        seen[x] = z
    return len(seen)


def _zone(z):
    """Mechanism zone of an index: small (double-exact) or large (beyond 2^52 where float roots lose integers)."""
    return "below2^40" if z < 2**40 else ("below2^52" if z < 2**52 else "above2^52")


def run_case(case, R):
    kind = case["kind"]
    R.evaluation()
    R.klass(kind)
    if kind == "window":
        n = _check_window(R, case["pairing"], case["dim"], range(case["lo"], case["hi"]), kind)
        if n >= 2:
            R.nontrivial_case(kind, case["pairing"], case["dim"], case["lo"])
        if case["lo"] == 0:
            R.sample({"kind": kind, "pairing": case["pairing"], "dim": case["dim"],
                      "first_projections": [list(map(int, _project(_pairing(case["pairing"]), z, case["dim"]))) for z in range(6)]})
    elif kind == "edges":
        m, dim = case["m"], case["dim"]
        if dim == 2:
            centers = [m * m, m * m + m, m * m + 2 * m, (m + 1) ** 2]
            centers += [m * (m + 1) // 2, (m + 1) * (m + 2) // 2]  # triangular numbers (Cantor shells)
        else:
            centers = [m**3, (m + 1) ** 3, m**3 + m * m, m**3 + 2 * m * m, m**3 + 3 * m * m + 3 * m]
        zs = sorted({c + k for c in centers for k in range(-3, 4) if c + k >= 0})
        n = _check_window(R, case["pairing"], dim, zs, kind)
        if n >= 2:
            R.nontrivial_case(kind, case["pairing"], dim, m)
    elif kind == "tuples":
        rng = np.random.default_rng(case["seed"])
        p = _pairing(case["pairing"])
        name, dim = case["pairing"], case["dim"]
        top = int(10 ** case["mag"])
        ok = 0
        for _ in range(case["n"]):
            x = tuple(int(v) for v in rng.integers(0, top + 1, size=dim))
            if rng.random() < 0.2:  # ties and zeros
                x = tuple(x[0] if rng.random() < 0.5 else 0 for _ in range(dim))
            R.hit("roundtrip_tuple")
            try:
                z = int(p.pairing(x))
                back = tuple(int(v) for v in _project(p, z, dim))
            except Exception as exc:  # noqa: BLE001
                R.violation(f"{name}{dim}d-raises-{_zone(max(x) ** dim)}", f"{name} pairing/projection raises "
                            f"{type(exc).__name__} on tuple {x}", {"x": x, "exc": repr(exc)})
                continue
            if z < 0 or back != x:
                R.violation(f"{name}{dim}d-roundtrip-{_zone(z)}", f"{name}.projection(pairing({x})) = {back}",
                            {"x": x, "z": z, "back": back})
            ok += 1
        if ok >= 2:
            R.nontrivial_case(kind, name, dim, case["mag"])
    elif kind == "zd":
        from rpylib.distribution.pairing import PairingToZd

        name, dim = case["pairing"], case["dim"]
        pz = PairingToZd(_pairing(name), dimension=dim, omit_zero=case["omit"])
        seen = {}
        zero = tuple([0] * dim)
        for i in range(case["n"]):
            R.hit("roundtrip_index")
            s = tuple(int(v) for v in pz.project(i))
            if case["omit"] and s == zero:
                R.violation(f"zd-{name}-zero-state", f"PairingToZd({name}, omit_zero=True).project({i}) is the origin", {"i": i})
            if s in seen:
                R.violation(f"zd-{name}{dim}-duplicate", f"PairingToZd({name},{dim}).project gives {s} at {seen[s]} and {i}",
                            {"i": i, "j": seen[s]})
            seen[s] = i
            b = int(pz.pair(s))
            if b != i:
                R.violation(f"zd-{name}{dim}-roundtrip", f"PairingToZd({name},{dim}).pair(project({i})) = {b}", {"i": i, "s": s})
        # completeness: every non-zero state of the cube [-r, r]^d whose index is < n must have been seen, and
        # project(pair(s)) == s for random signed tuples
        rng = np.random.default_rng(case["seed"])
        for _ in range(300):
            s = tuple(int(v) for v in rng.integers(-60, 61, size=dim))
            if case["omit"] and s == zero:
                continue
            R.hit("roundtrip_tuple")
            i = int(pz.pair(s))
            t = tuple(int(v) for v in pz.project(i))
            if i < 0 or t != s:
                R.violation(f"zd-{name}{dim}-roundtrip", f"PairingToZd({name},{dim}).project(pair({s})) = {t} (index {i})",
                            {"s": s, "i": i})
            if i < case["n"] and seen.get(s) != i:
                R.violation(f"zd-{name}{dim}-missing", f"state {s} has index {i} but the enumeration gave {seen.get(s)}", {"s": s})
        R.nontrivial_case(kind, name, dim, case["omit"])
    elif kind == "z1d":
        _z1d(case, R)
    elif kind == "lazy":
        from rpylib.tools.generic import lazy_indices_product

        sizes = case["sizes"]
        R.hit("lazy_products")
        got = [tuple(int(v) for v in t) for t in lazy_indices_product(list(sizes))]
        want = list(itertools.product(*[range(s) for s in sizes]))
        equal_sizes = len(set(sizes)) == 1
        tag = "equal-sizes" if equal_sizes else "unequal-sizes"
        if sorted(got) != sorted(want):
            missing = sorted(set(want) - set(got))[:5]
            dup = [t for t, c in __import__("collections").Counter(got).items() if c > 1][:5]
            R.violation(f"lazy-product-{tag}", f"lazy_indices_product({sizes}) is not the cartesian product: "
                        f"{len(got)} tuples for {len(want)}, missing {missing}, repeated {dup}",
                        {"sizes": sizes, "missing": missing, "repeated": dup})
        if math.prod(sizes) >= 2:
            R.nontrivial_case(kind, tuple(sizes))
        if sizes == [2, 3, 2]:
            R.sample({"kind": "lazy", "sizes": sizes, "got": got})
    elif kind == "states":
        _states(case, R)
    else:
        raise ValueError(kind)


def _z1d(case, R):
    from rpylib.distribution.pairing import PairingToZ1d

    L, Rr = case["L"], case["R"]
    n = L + Rr
    want = set(range(-L, Rr + 1)) - {0}
    rng = np.random.default_rng(case["seed"])
    shape = "L<R" if L < Rr else ("L>R" if L > Rr else "L=R")
    orders = {
        "increasing": list(range(n)),
        "reversed": list(range(n - 1, -1, -1)),
        "shuffled": [int(v) for v in rng.permutation(n)],
        "repeated": [int(v) for v in rng.integers(0, n, size=2 * n)] + list(range(n)),
        "tail-first": list(range(n // 2, n)) + list(range(n // 2)),
    }
    reference = None
    for oname, order in orders.items():
        R.hit("z1d_orders")
        p = PairingToZ1d((-L, Rr), omit_zero=True)
        table = {}
        for i in order:
            s = int(p.project(i))
            if i in table and table[i] != s:
                R.violation(f"z1d-order-dependent-{shape}", f"PairingToZ1d((-{L},{Rr})).project({i}) changed from {table[i]} to {s}",
                            {"L": L, "R": Rr, "order": oname})
            table[i] = s
        states = [table[i] for i in range(n)]
        if oname == "increasing":
            reference = states
            if set(states) != want or len(set(states)) != n:
                R.violation(f"z1d-enumeration-{shape}", f"PairingToZ1d((-{L},{Rr})) in-order enumeration is not the set of "
                            f"non-zero states: {states[:30]}", {"L": L, "R": Rr, "states": states})
            for i, s in enumerate(states):
                b = int(p.pair(s))
                if b != i:
                    R.violation(f"z1d-pair-not-inverse-{shape}", f"PairingToZ1d((-{L},{Rr})).pair({s}) = {b}, but project({i}) = {s}",
                                {"L": L, "R": Rr, "i": i, "s": s})
        elif states != reference:
            bad = [i for i in range(n) if states[i] != reference[i]][:5]
            R.violation(f"z1d-order-dependent-{shape}", f"PairingToZ1d((-{L},{Rr})): query order '{oname}' gives a different "
                        f"index->state map than in-order enumeration at indices {bad}",
                        {"L": L, "R": Rr, "order": oname, "got": states, "inorder": reference})
    R.nontrivial_case("z1d", L, Rr)
    if (L, Rr) == (2, 5):
        R.sample({"kind": "z1d", "L": L, "R": Rr, "inorder": reference})


class _FlatMeasure:
    def support(self):
        return (-np.inf, np.inf)


def _make_grid(dim, nl, nr, nrs=None):
    from rpylib.grid.spatial import CTMCGrid

    h = 0.1
    nrs = list(nrs) if nrs else [nr] * dim

    def axis(n_right):
        return np.concatenate([-h * np.arange(nl, 0, -1), [0.0], h * np.arange(1, n_right + 1)])

    return CTMCGrid(h=h, origin_coordinate=nl, axes=[axis(n) for n in nrs])


def _states(case, R):
    """StatesManager.project_index_to_state_increment over increasing indices returns every in-grid
    non-origin state exactly once before the exhaustion flag."""
    from rpylib.distribution.pairing import (PairingToZd, PairingToZ1d, Szudzik, RosenbergStrong, StatesManager,
                                             Domain, Boundary)

    dim, nl, nr = case["dim"], case["nl"], case["nr"]
    nrs = case.get("nrs") or [nr] * dim
    grid = _make_grid(dim, nl, nr, nrs)
    if len(set(nrs)) > 1:
        R.hit("states_enumerations_unequal_axis_sizes")
    if dim == 1:
        pairing = PairingToZ1d((-nl, nr), omit_zero=True)
    elif dim == 2:
        pairing = PairingToZd(pairing=Szudzik(), dimension=2)
    else:
        pairing = PairingToZd(pairing=RosenbergStrong(), dimension=dim)
    domain = Domain(boundary=Boundary(), grid=grid, pairing=pairing)
    sm = StatesManager(pairing=pairing, domain=domain, grid=grid)
    R.hit("states_enumerations")
    want = set(itertools.product(*[range(-nl, n + 1) for n in nrs])) - {tuple([0] * dim)}
    got = []
    x = 0
    limit = 50 * (len(want) + 10) * (4 if dim == 3 else 1)
    exhausted = False
    # the sampler's own driving pattern: x = (number of states consumed so far), project(x, max_logged)
    while x < limit:
        state, brk = sm.project_index_to_state_increment(x, 10**6)
        if brk:
            exhausted = True
            break
        s = tuple(int(v) for v in np.atleast_1d(state))
        got.append(s)
        x += 1
    shape = f"{dim}d-" + ("sym" if nl == nr else "asym") + ("-unequal-axes" if len(set(nrs)) > 1 else "")
    if not exhausted:
        R.violation(f"states-no-exhaustion-{shape}", f"StatesManager never signals exhaustion on grid {dim}d nl={nl} nr={nr}",
                    {"case": case})
        return
    cnt = __import__("collections").Counter(got)
    dups = [s for s, c in cnt.items() if c > 1][:5]
    missing = sorted(want - set(got))[:8]
    extra = sorted(set(got) - want)[:5]
    if dups:
        R.violation(f"states-duplicate-{shape}", f"StatesManager returns states more than once: {dups}", {"dups": dups})
    if extra:
        R.violation(f"states-inadmissible-{shape}", f"StatesManager returns origin/out-of-grid states {extra}", {"extra": extra})
    if missing:
        n_missing = len(want - set(got))
        idx = sorted(int(pairing.pair(s if dim > 1 else s[0])) for s in (want - set(got)))
        top = int(sm.max_frontier_indices)
        where = "only-the-largest-index" if idx == [top] else ("indices-from-max-frontier-index" if min(idx) >= top else "other")
        R.violation(f"states-missing-{shape}-{where}", f"StatesManager signals exhaustion before returning {n_missing} admissible "
                    f"state(s) (e.g. {missing[:3]}; their indices {idx[:4]}; max frontier index {top}) on a {dim}-d grid "
                    f"with {nl} states left / {nr} right of the origin",
                    {"missing": missing, "indices": idx[:20], "max_frontier": top, "n_states": len(want)})
    if case.get("order") == "restart" and dim == 1:
        # second pass after the reset rule (x == max_logged) must give the same sequence
        sm._last_projected_index = -1
        again = []
        for x in range(len(got)):
            st, brk = sm.project_index_to_state_increment(x, 10**6)
            if brk:
                break
            again.append(tuple(int(v) for v in np.atleast_1d(st)))
        if again != got[:len(again)] or len(again) != len(got):
            R.violation(f"states-second-pass-differs-{shape}", "second enumeration pass differs from the first",
                        {"first": got[:20], "second": again[:20]})
    # the inversion sampler stores the first max_logged states and re-enumerates the others at every draw that goes beyond them: a first scan
    # with a small max_logged, then scans restarted at x = max_logged, return the same states in the same order as the plain enumeration
    if dim >= 2 and not (dups or extra or missing) and len(got) >= 6:
        rng_m = np.random.default_rng(case.get("seed", 0) + 5)
        for M in sorted({int(v) for v in rng_m.integers(1, len(got), size=6)} | {len(got) - 1, len(got) // 2}):
            sm2 = StatesManager(pairing=pairing, domain=Domain(boundary=Boundary(), grid=grid, pairing=pairing), grid=grid)
            first = []
            for x in range(len(got) + 5):
                st, brk = sm2.project_index_to_state_increment(x, M)
                if brk:
                    break
                first.append(tuple(int(v) for v in np.atleast_1d(st)))
            ok_first = first == got
            restarted = None
            if ok_first:
                for _ in range(2):
                    restarted = []
                    for x in range(M, len(got) + 5):
                        st, brk = sm2.project_index_to_state_increment(x, M)
                        if brk:
                            break
                        restarted.append(tuple(int(v) for v in np.atleast_1d(st)))
                    if restarted != got[M:]:
                        break
            R.hit("states_enumerations_with_a_storage_limit")
            if not ok_first or restarted != got[M:]:
                what = "first scan" if not ok_first else "scan restarted at the storage limit"
                seq = first if not ok_first else restarted
                cnt2 = __import__("collections").Counter(seq if not ok_first else got[:M] + seq)
                twice = [s_ for s_, c_ in cnt2.items() if c_ > 1][:3]
                R.violation(f"states-enumeration-with-storage-limit-{shape}" + ("-state-returned-twice" if twice else ""), f"storage limit {M} on a {dim}-d grid ({nl} left, {nrs} right): the "
                            f"{what} returns {len(seq)} states, expected {len(got) if not ok_first else len(got) - M}" + (f"; returned twice: {twice}" if twice else ""),
                            {"case": case, "max_logged": M})
                break
    R.nontrivial_case("states", dim, nl, nr, case.get("order"))
    if (dim, nl, nr) == (2, 2, 2):
        R.sample({"kind": "states", "dim": dim, "nl": nl, "nr": nr, "enumerated": got, "admissible": len(want)})
