"""C18 -- Fourier and closed-form pricers are mutually consistent and arbitrage-free.

Monitor: COSPricer.call/put/forward/digital/density/cdf/price, FFTPricer.call/put, CFBlackScholes.* on generated
models inside a documented box, maturities and strike ladders (scalar and vector strikes).
Oracle: static no-arbitrage relations and cross-method agreement; every tolerance below is 10x the largest
deviation observed on the unchanged tree over 3 000 models of the box (empirical box, not a proof).
"""
from __future__ import annotations

import math
import os
import warnings

import numpy as np

from .. import workloads as W

ID = "C18"
RULE = ("case = (exponential model drawn in the documented box, maturity T, 41-point strike ladder with log(K/S0) inside the middle "
        "40% of the COS truncation range): parity, bounds, monotonicity and convexity in the strike, digital in [0, df] and "
        "decreasing, density >= 0 and integrating to 1, cdf = 1 - digital/df-consistent, COS = FFT, COS = Black-Scholes closed form "
        "(BS cases), VG = CGMY(y=0) parametrisation, scalar = vector strikes, price(product) = call/put/forward; non-trivial = "
        "ladder on which the call varies by more than 1e-3 S; distinct = distinct (model, T)")
BOX = {
    "HEM": "sigma in [0.1,0.4], p in [0.2,0.8], eta1 in [8,60], eta2 in [5,60], intensity in [0.2,5], T in [0.1,3]",
    "MERTON": "sigma in [0.1,0.4], mu_j in [0,0.15], sigma_j in [0.05,0.25], intensity in [0.2,5], T in [0.1,3]",
    "VG": "sigma in [0.1,0.4], nu in [0.05,0.5], theta in [-0.3,0.1], T in [max(0.5, 1.5 nu), 2]",
    "CGMY": "y in [0.5,0.95] u {1}: c in [0.3,1.5], g in [3,30], m in [5,40]; y in [1.05,1.2]: c in [0.3,1], g in [6,30], m in [8,40]; T in [0.5,3]",
    "BS": "sigma in [0.05,0.6], T in [0.05,3]",
    "short": "MERTON / HEM as above with intensity in [0.2,0.6], T in [0.02,0.1] (MERTON: mu_j in [0,0.1], sigma_j in [0.1,0.25]); COS = FFT to 1e-7 S there",
}
ASSUMPTIONS = ["documented parameter box (empirical, with a 10x margin on every tolerance): " + "; ".join(f"{k}: {v}" for k, v in BOX.items()),
               "spot in [5,500], r in [0,0.1], d in [0,0.06]; strikes inside the middle 40% of COS's own [a,b]"]
REQUIRED_COUNTERS = ["parity_checks", "bound_checks", "convexity_checks", "digital_checks", "density_checks", "cos_vs_fft",
                     "cos_vs_blackscholes", "vg_vs_cgmy", "scalar_vs_vector", "price_product_checks", "closed_form_without_volatility", "prices_after_representation_change", "cos_vs_merton_series", "prices_after_rates_assigned", "models_reached_by_parameter_update"]
MIN_NONTRIVIAL = {"quick": 25, "thorough": 250}
THOROUGH_ROUNDS = 3      # the thorough tier runs the generators this many times (different seeds)
SHARD_TIMEOUT = {"quick": 900, "thorough": 7200}

# tolerances, in units of the spot unless stated (10x the worst deviation observed on the unchanged tree)
# (re-calibrated after 9 thorough runs of 1620 models each: the worst case, a Black-Scholes model with sigma = 0.06, T = 2.8 and a carry of
#  -4.6 % -- the COS range is not centred on the carry -- reached 3.2e-8 S against the closed form and 3.5e-6 in the convexity test)
TOL = {"parity": 1e-10, "bounds": 5e-7, "mono": 5e-7, "convex": 6e-6, "digital": 1e-6, "dens_neg": 1e-5, "dens_int": 1e-5,
       "cos_fft": 3e-6, "cos_fft_short": 1e-7, "cos_merton": 3e-8, "cos_bs": 1e-7, "vg_cgmy": 3e-7, "fft_bs": 3e-6}


def _u(rng, lo, hi):
    return W.r6(rng.uniform(lo, hi))


def _lu(rng, lo, hi):
    return W.r6(W._logu(rng, lo, hi))


def gen_spec(rng, fam):
    mkt = {"spot": _lu(rng, 5, 500), "r": _u(rng, 0.0, 0.1), "d": _u(rng, 0.0, 0.06), "exp": True}
    if fam == "HEM":
        p = {"sigma": _u(rng, 0.1, 0.4), "p": _u(rng, 0.2, 0.8), "eta1": _lu(rng, 8, 60), "eta2": _lu(rng, 5, 60), "intensity": _lu(rng, 0.2, 5)}
        T = _lu(rng, 0.1, 3)
    elif fam == "MERTON":
        p = {"sigma": _u(rng, 0.1, 0.4), "mu_j": _u(rng, 0.0, 0.15), "sigma_j": _lu(rng, 0.05, 0.25), "intensity": _lu(rng, 0.2, 5)}
        T = _lu(rng, 0.1, 3)
    elif fam == "VG":
        p = {"sigma": _u(rng, 0.1, 0.4), "nu": _lu(rng, 0.05, 0.5), "theta": _u(rng, -0.3, 0.1)}
        T = _lu(rng, max(0.5, 1.5 * p["nu"]), 2)
    elif fam == "CGMY":
        br = int(rng.integers(3))
        y = _u(rng, 0.5, 0.95) if br == 0 else (1.0 if br == 1 and rng.random() < 0.3 else _u(rng, 1.05, 1.2))
        if y > 1:
            p = {"c": _lu(rng, 0.3, 1.0), "g": _lu(rng, 6, 30), "m": _lu(rng, 8, 40), "y": y}
        else:
            p = {"c": _lu(rng, 0.3, 1.5), "g": _lu(rng, 3, 30), "m": _lu(rng, 5, 40), "y": y}
        T = _lu(rng, 0.5, 3)
    else:
        p = {"sigma": _u(rng, 0.05, 0.6)}
        T = _lu(rng, 0.05, 3)
    spec = {"family": fam, "params": p}
    spec.update(mkt)
    if fam == "CGMY":
        spec["branch"] = W.cgmy_branch(p["y"])
    return spec, T


def gen_cases(tier, seed):
    rng = np.random.default_rng(seed + 1800)
    n = 40 if tier == "quick" else 480
    cases = []
    fams = ["HEM", "MERTON", "VG", "CGMY", "BS"]
    for i in range(n):
        spec, T = gen_spec(rng, fams[i % 5])
        if i % 4 == 3 and fams[i % 5] != "VG":
            T = _u(rng, 2.0, 3.0)       # long maturities (not for VG: without a sixth cumulant its COS range is narrower and the truncation
                                        # error reaches 2.5e-7 S at T = 2.9, above the allowance calibrated on T <= 2)
        cases.append({"spec": spec, "T": T, "seed": int(rng.integers(2**31))})
    # rare jumps at maturities of a week to a month (intensity x T <= 0.06): the jump component is far in the tails of the diffusion
    for i in range(6 if tier == "quick" else 60):
        spec, _ = gen_spec(rng, ["MERTON", "HEM"][i % 2])
        spec["params"]["intensity"] = _u(rng, 0.2, 0.6)
        if spec["family"] == "MERTON":
            spec["params"]["mu_j"], spec["params"]["sigma_j"] = _u(rng, 0.0, 0.1), _u(rng, 0.1, 0.25)
        cases.append({"spec": spec, "T": _u(rng, 0.02, 0.1), "seed": int(rng.integers(2**31)), "short": True})
    return cases


def _merton_series_call(spec, ks, T):
    """Merton's series of Black-Scholes prices (written here, no library code): the jump count is Poisson, conditionally the log-price is normal"""
    from scipy.stats import norm

    p, S, r, d = spec["params"], spec["spot"], spec["r"], spec["d"]
    lam, mu, sj, sig = p["intensity"], p["mu_j"], p["sigma_j"], p["sigma"]
    kbar = math.exp(mu + 0.5 * sj * sj) - 1.0
    out = np.zeros(len(ks))
    w = math.exp(-lam * T)
    for n in range(0, 80):
        if n:
            w *= lam * T / n
        var = sig * sig * T + n * sj * sj
        m = math.log(S) + (r - d - lam * kbar - 0.5 * sig * sig) * T + n * mu          # mean of log S_T given n jumps
        sd = math.sqrt(var)
        d1 = (m + var - np.log(ks)) / sd
        d2 = d1 - sd
        out += w * math.exp(-r * T) * (np.exp(m + 0.5 * var) * norm.cdf(d1) - ks * norm.cdf(d2))
        if w < 1e-18 and n > lam * T:
            break
    return out


def run_case(case, R):
    warnings.simplefilter("ignore")
    from rpylib.numerical.cosmethod import COSPricer
    from rpylib.numerical.fft import FFTPricer
    from rpylib.product.product import Product
    from rpylib.product.underlying import Spot
    from rpylib.product.payoff import Vanilla, Forward, PayoffType

    R.evaluation()
    spec, T = case["spec"], case["T"]
    rng = np.random.default_rng(case["seed"])
    fam = spec["family"]
    label = W.model_label(spec)
    model = W.build_model(spec)
    if fam != "BS" and case["seed"] % 2 == 0:
        # the parameter object first holds another parameter set of the family, is assigned the final values one by one and re-initialised
        # (what the calibration helpers do): the same model
        start_spec, _ = gen_spec(np.random.default_rng(case["seed"] + 1), fam)
        if fam == "CGMY":
            # (same activity index: the other three parameters move)
            start_spec = dict(spec, params=dict(spec["params"], c=spec["params"]["c"] * 1.3, g=spec["params"]["g"] * 0.8, m=spec["params"]["m"] * 1.2))
        model = W.build_model_via_update(spec, start_spec, case["seed"])
        R.hit("models_reached_by_parameter_update")
    S = spec["spot"]
    wit = {"spec": spec, "T": T}
    R.klass(label)
    calib = {} if os.environ.get("C18_CALIBRATE") else None

    def judge(name, dev, tol_key, what, counter):
        R.hit(counter)
        if calib is not None:
            calib[name] = max(calib.get(name, 0.0), float(dev) / TOL[tol_key])
        if not (dev <= TOL[tol_key]):
            R.violation(f"{fam}-{name}", f"{label}, T = {T}: {what} (deviation {float(dev):.3e}, tolerance {TOL[tol_key]:.1e})", wit)

    cos = COSPricer(model)
    a, b = cos._interval_a_b(T)
    lo, hi = a + 0.3 * (b - a), b - 0.3 * (b - a)
    ks = S * np.exp(np.linspace(lo, hi, 41))
    df = float(model.df(T))
    F = S * math.exp((spec["r"] - spec["d"]) * T)
    call, put, fwd, dig = cos.call(ks, T), cos.put(ks, T), cos.forward(ks, T), cos.digital(ks, T)
    judge("parity", np.max(np.abs(call - put - df * (F - ks))) / S, "parity", "call - put differs from df (F - K)", "parity_checks")
    judge("forward", np.max(np.abs(fwd - df * (F - ks))) / S, "parity", "COS forward differs from df (F - K)", "parity_checks")
    judge("lower-bound", np.max(np.maximum(df * (F - ks), 0) - call) / S, "bounds", "call below its intrinsic value", "bound_checks")
    judge("upper-bound", np.max(call - df * F) / S, "bounds", "call above the discounted forward", "bound_checks")
    judge("put-bounds", max(np.max(np.maximum(df * (ks - F), 0) - put), np.max(put - df * ks)) / S, "bounds", "put outside [intrinsic, df K]", "bound_checks")
    judge("call-increasing-in-strike", np.max(np.diff(call)) / S, "mono", "call increases with the strike", "convexity_checks")
    d1 = np.diff(call) / np.diff(ks)
    judge("call-not-convex", np.max(-np.diff(d1) * (ks[2:] - ks[:-2]) / 2), "convex", "call not convex in the strike", "convexity_checks")
    judge("digital-range", max(np.max(dig - df), np.max(-dig)), "digital", "digital outside [0, df]", "digital_checks")
    judge("digital-increasing", np.max(np.diff(dig)), "digital", "digital increases with the strike", "digital_checks")
    cdf = cos.cdf(T, ks)
    judge("cdf-vs-digital", np.max(np.abs(cdf - (1 - dig))), "parity", "cdf != 1 - digital (as coded)", "digital_checks")
    us = np.linspace(a, b, 1201) + float(model.x0_value())
    dl = cos.density_log(T, us)
    judge("density-negative", np.max(-dl) * (b - a), "dens_neg", "implied density negative", "density_checks")
    judge("density-integral", abs(np.trapezoid(dl, us) - 1), "dens_int", "implied density does not integrate to 1", "density_checks")
    # scalar vs vector strikes
    j = int(rng.integers(41))
    sc = float(np.asarray(cos.call(np.array([ks[j]]), T)).reshape(-1)[0])
    judge("scalar-vs-vector", abs(sc - call[j]) / S, "parity", "single strike price differs from the ladder price", "scalar_vs_vector")
    # long strike vectors (300 .. 1100 strikes, lengths that are and are not multiples of powers of two): element by element the price of the
    # same strike alone
    n_long = int(rng.choice([257, 300, 513, 777, 1024, 1100]))
    ks_long = S * np.exp(np.linspace(lo, hi, n_long))
    try:
        cl_, pl_, dl_ = cos.call(ks_long, T), cos.put(ks_long, T), cos.digital(ks_long, T)
        dev_l = 0.0
        for j_ in sorted({0, 1, 127, 255, 256, n_long // 2, n_long - 2, n_long - 1} | {int(v) for v in rng.integers(0, n_long, size=4)}):
            kj_ = np.array([ks_long[j_]])
            dev_l = max(dev_l, abs(float(np.asarray(cos.call(kj_, T)).reshape(-1)[0]) - cl_[j_]) / S, abs(float(np.asarray(cos.put(kj_, T)).reshape(-1)[0]) - pl_[j_]) / S,
                        abs(float(np.asarray(cos.digital(kj_, T)).reshape(-1)[0]) - dl_[j_]))
        judge("long-strike-vector-vs-single-strikes", dev_l, "parity", f"call / put / digital of a vector of {n_long} strikes differ from the prices of the same strikes alone", "scalar_vs_vector")
    except Exception as exc:  # noqa: BLE001
        R.violation(f"{fam}-long-strike-vector-raises", f"{label}: {n_long} strikes: {type(exc).__name__}: {exc}", wit)
    # price(product)
    for pay, ref in ((Vanilla(strike=ks, payoff_type=PayoffType.CALL), call), (Vanilla(strike=ks, payoff_type=PayoffType.PUT), put),
                     (Forward(strike=ks), fwd)):
        got = np.asarray(cos.price(Product(payoff_underlying=Spot(), payoff=pay, maturity=T)))
        judge("price-product", np.max(np.abs(got - ref)) / S, "parity", "price(product) differs from call/put/forward", "price_product_checks")
    # FFT
    try:
        fft = FFTPricer(model)
        fc, fp = fft.call(ks, T), fft.put(ks, T)
        # the damped transform amplifies its own rounding by exp(alpha |log K/S|) at low strikes: compared for |log K/S| <= 1.5
        mid = np.zeros(ks.size, dtype=bool)
        mid[6:35] = True
        mid &= np.abs(np.log(ks / S)) <= 1.5
        if not mid.any():
            mid[ks.size // 2] = True
        # (the FFT's own error grows like exp(4 |k|) towards low strikes -- observed 2e-8 S at the money, 6e-6 S at log K/S = -1.43 for a
        #  Merton model at T = 2.8 where COS agrees with Merton's series to 1e-15 S: the allowance below log K/S = -0.8 follows that growth)
        amp = np.exp(4.0 * np.maximum(0.0, -np.log(ks / S) - 0.8))
        fc_cmp, fp_cmp = call + (fc - call) / amp, put + (fp - put) / amp
        if case.get("short"):
            # short maturities, rare jumps: both methods are accurate to 1e-8 S there (worst deviation observed 8.4e-9 S over 360 cases)
            judge("cos-vs-fft-call-short-maturity", np.max(np.abs(fc - call)[mid]) / S, "cos_fft_short", "COS and FFT calls differ (short maturity, rare jumps)", "cos_vs_fft")
        judge("cos-vs-fft-call", np.max(np.abs(fc_cmp - call)[mid]) / S, "cos_fft", "COS and FFT calls differ", "cos_vs_fft")
        judge("cos-vs-fft-put", np.max(np.abs(fp_cmp - put)[mid]) / S, "cos_fft", "COS and FFT puts differ", "cos_vs_fft")
    except Exception as exc:  # noqa: BLE001
        R.violation(f"{fam}-fft-raises", f"{label}, T = {T}: FFT pricer raises {type(exc).__name__}: {exc}", wit)
    if fam == "BS":
        cf = model.closed_form
        bc = np.array([cf.call(k, T) for k in ks])
        bp = np.array([cf.put(k, T) for k in ks])
        judge("cos-vs-bs-call", np.max(np.abs(bc - call)) / S, "cos_bs", "COS call differs from the Black-Scholes formula", "cos_vs_blackscholes")
        judge("cos-vs-bs-put", np.max(np.abs(bp - put)) / S, "cos_bs", "COS put differs from the Black-Scholes formula", "cos_vs_blackscholes")
        judge("bs-parity", np.max(np.abs(bc - bp - np.array([cf.forward(k, T) for k in ks]))) / S, "parity", "closed-form parity", "cos_vs_blackscholes")
        judge("cos-vs-bs-digital", np.max(np.abs(cf.digital(ks, T) - dig)), "cos_bs", "COS digital differs from Black-Scholes", "cos_vs_blackscholes")
        # the closed form at very small total variance (sigma sqrt(T) of 1e-5 .. 1e-3 with sigma and T both well above the degenerate
        # thresholds): the Black-Scholes formula written here, strikes within a few standard deviations of the forward
        from scipy.stats import norm as _norm

        dev_s = 0.0
        for sig_s, T_s in ((0.02, 1e-5), (0.05, 1e-6), (float(spec["params"]["sigma"]), 1e-4), (0.3, 3e-8)):
            cf_s = W.build_model(dict(spec, params={"sigma": sig_s})).closed_form
            sd_s = sig_s * math.sqrt(T_s)
            F_s, df_s = S * math.exp((spec["r"] - spec["d"]) * T_s), math.exp(-spec["r"] * T_s)
            for z_ in (-2.0, -0.5, 0.0, 0.7, 2.5):
                k_s = F_s * math.exp(z_ * sd_s)
                d1_ = (math.log(F_s / k_s) + 0.5 * sd_s**2) / sd_s
                want_cs = df_s * (F_s * _norm.cdf(d1_) - k_s * _norm.cdf(d1_ - sd_s))
                dev_s = max(dev_s, abs(float(cf_s.call(k_s, T_s)) - want_cs) / S, abs(float(cf_s.put(k_s, T_s)) - (want_cs - df_s * (F_s - k_s))) / S)
        judge("bs-closed-form-small-total-variance", dev_s, "parity", "closed form with a small total variance differs from the Black-Scholes formula", "closed_form_without_volatility")
        # closed-form butterflies (symmetric and not, body below and above the forward) = their call combination
        dev_b = 0.0
        for _ in range(8):
            i1, i2, i3 = sorted(int(v) for v in rng.choice(41, size=3, replace=False))
            bfly = float(cf.butterfly(float(ks[i1]), float(ks[i2]), float(ks[i3]), T))
            dev_b = max(dev_b, abs(bfly - (bc[i1] - 2 * bc[i2] + bc[i3])))
        judge("bs-closed-form-butterfly", dev_b / S, "parity", "closed-form butterfly differs from the combination of closed-form calls", "cos_vs_blackscholes")
        judge("fft-vs-bs", np.max(np.abs((fc - bc) / amp)[mid]) / S, "fft_bs", "FFT call differs from Black-Scholes", "cos_vs_blackscholes")
        # the closed form without volatility (its degenerate branch): deterministic stock, price = df * (F - K)^+ ; and continuity in sigma
        for sig0 in (0.0, 1e-9):
            cf0 = W.build_model(dict(spec, params={"sigma": sig0})).closed_form
            kk = [float(ks[8]), float(ks[20]), float(ks[32])]
            c0 = np.array([float(cf0.call(k, T)) for k in kk])
            p0 = np.array([float(cf0.put(k, T)) for k in kk])
            want_c = df * np.maximum(F - np.array(kk), 0.0)
            want_p = df * np.maximum(np.array(kk) - F, 0.0)
            # the same strikes as one vector, and the digital on a scalar strike
            try:
                cv_ = np.asarray(cf0.call(np.array(kk), T), dtype=float).reshape(-1)
                pv_ = np.asarray(cf0.put(np.array(kk), T), dtype=float).reshape(-1)
                dg_ = float(np.asarray(cf0.digital(kk[0], T), dtype=float).reshape(-1)[0])
                dgv = np.asarray(cf0.digital(np.array(kk), T), dtype=float).reshape(-1)
                judge("bs-closed-form-without-volatility-vector-vs-scalar-strikes", max(np.max(np.abs(cv_ - c0)), np.max(np.abs(pv_ - p0)), abs(dg_ - dgv[0]) * S) / S, "parity",
                      f"closed form with sigma = {sig0}: vector and scalar strikes give different prices", "closed_form_without_volatility")
            except Exception as exc:  # noqa: BLE001
                R.violation("BS-closed-form-without-volatility-raises", f"{label}: closed form with sigma = {sig0} on vector strikes (call, put) / a scalar strike (digital) "
                            f"raises {type(exc).__name__}: {exc}", wit)
            judge("bs-closed-form-without-volatility", max(np.max(np.abs(c0 - want_c)), np.max(np.abs(p0 - want_p))) / S, "parity",
                  f"closed form with sigma = {sig0} differs from the price of the deterministic stock df (F - K)^+", "closed_form_without_volatility")
    # the interest and dividend rates assigned after construction (the models expose them as validated attributes): prices of a model
    # constructed with the final values
    try:
        m4 = W.build_model(dict(spec, r=W.r6(rng.uniform(0.0, 0.1)), d=W.r6(rng.uniform(0.0, 0.06))))
        m4.r, m4.d = spec["r"], spec["d"]
        cos4 = COSPricer(m4)
        judge("prices-after-rates-assigned", max(np.max(np.abs(cos4.call(ks, T) - call)), np.max(np.abs(cos4.put(ks, T) - put)), np.max(np.abs(cos4.digital(ks, T) - dig)) * S) / S,
              "parity", "COS call / put / digital of a model whose r and d were assigned after construction differ from those of a model constructed with them",
              "prices_after_rates_assigned")
        if fam == "BS":
            cf4 = m4.closed_form
            judge("closed-form-after-rates-assigned", np.max(np.abs(np.array([cf4.call(k_, T) for k_ in ks]) - cos4.call(ks, T))) / S, "cos_bs",
                  "after r and d were assigned the Black-Scholes closed form and COS disagree", "prices_after_rates_assigned")
    except Exception as exc:  # noqa: BLE001
        R.violation(f"{fam}-pricing-after-rates-assigned-raises", f"{label}: {type(exc).__name__}: {exc}", wit)
    if fam == "MERTON":
        ms = _merton_series_call(spec, ks, T)
        judge("cos-vs-merton-series", np.max(np.abs(ms - call)) / S, "cos_merton", "COS call differs from Merton's series of Black-Scholes prices", "cos_vs_merton_series")
    if fam != "BS":
        # the same process with its triplet re-declared in another representation (what the Markov-chain processes do with their copy of
        # the model): the characteristic function, hence every price, is the one of the same process
        from rpylib.model.levymodel.levymodel import LevyRepresentation

        m2 = W.build_model(spec)
        trip = m2.levy_model.levy_triplet
        fv = bool(m2.levy_model.jump_of_finite_variation())
        reps = [r_ for r_ in (["CENTER", "ONEONE", "TILDE"] + (["ZERO"] if fv else [])) if r_ != trip.representation.name]
        rep = str(rng.choice(reps))
        try:
            trip.set_representation(getattr(LevyRepresentation, rep))
            c3 = COSPricer(m2).call(ks, T)
            judge(f"price-changes-with-the-declared-representation", np.max(np.abs(c3 - call)) / S, "parity",
                  f"COS call after set_representation({rep}) on the model's triplet differs from the call of the model as built", "prices_after_representation_change")
        except Exception as exc:  # noqa: BLE001
            R.violation(f"{fam}-pricing-after-representation-change-raises", f"{label}: {type(exc).__name__}: {exc}", wit)
    if fam == "VG":
        p = spec["params"]
        s2 = p["sigma"] ** 2
        lp = (math.sqrt(p["theta"] ** 2 + 2 * s2 / p["nu"]) - p["theta"]) / s2
        lm = lp + 2 * p["theta"] / s2
        twin = {"family": "CGMY", "params": {"c": 1 / p["nu"], "g": lm, "m": lp, "y": 0.0}, "exp": True, "spot": S, "r": spec["r"], "d": spec["d"]}
        c2 = COSPricer(W.build_model(twin)).call(ks, T)
        judge("vg-vs-cgmy", np.max(np.abs(c2 - call)) / S, "vg_cgmy", "VG and its CGMY(y=0) parametrisation give different calls", "vg_vs_cgmy")
    if np.max(call) - np.min(call) > 1e-3 * S:
        R.nontrivial_case(label, spec, T)
    if calib is not None:
        R.sample({"calibration_ratios": calib, "spec": spec, "T": T})
        for k, v in calib.items():
            if v > 0.1:
                print(f"CALIB {fam} {k} ratio={v:.3f} T={T} {spec['params']}", flush=True)
    else:
        R.sample({"spec": spec, "T": T, "range": [a, b], "atm_call": float(call[20]), "atm_digital": float(dig[20])})
