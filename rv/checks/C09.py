"""C09 -- closed-form Levy-measure integrals equal integrals of the model's own density.

Monitor: every public integral of every measure (and of truncated wrappers) is called on generated
intervals; oracle: quadrature of x^n * nu(x) with nu the measure's own ``__call__`` (rv.oracles.quadrature).
"""
from __future__ import annotations

import math

import numpy as np

from .. import workloads as W
from ..oracles import quadrature as Q

ID = "C09"
RULE = ("case = (model spec, optional truncation, 14 generated intervals of every class: positive, negative, "
        "straddling 0, half-infinite, whole line, touching 0, degenerate) x methods integrate / integrate_against_x / "
        "_xx / _xn(n=0..6); a comparison is made only where the integral is finite (n - activity index > 0 when 0 is "
        "touched); non-trivial = at least one comparison with |oracle| > 1e-9 * scale; distinct = distinct "
        "(family, branch, truncated?, parameters)")
ASSUMPTIONS = [
    "scipy.integrate.quad of the model's density is trusted as oracle; its own error estimate enters the tolerance "
    "(|obs-val| <= 1e-7|val| + 1e-12*scale + 10*err) and comparisons whose estimate exceeds 1e-8*scale are skipped",
    "parameter boxes of DESIGN.md section 3; CGMY y kept >= 0.05 away from the integers 0, 1, 2 except exactly 0 and 1, and except a few cases "
    "2e-6 .. 1e-3 away from 1, judged with the relative tolerance 1e-7 + 1e-12 (1 + x^2) / |y - 1|, x = decay rate x end point (conditioning of the "
    "incomplete-gamma recurrences next to their removable singularity; observed on the unchanged tree: up to 1e-5 on far-tail masses of 1e-11 at |y - 1| = 2e-6)",
]
REQUIRED_COUNTERS = ["cmp_integrate", "cmp_x", "cmp_xx", "cmp_xn", "additivity", "sign_rule", "truncated_cmp", "successive_truncations",
                     "closed_form_calls", "library_quad_calls", "high_moment_comparisons"]
MIN_NONTRIVIAL = {"quick": 30, "thorough": 200}
THOROUGH_ROUNDS = 10      # the thorough tier runs the generators this many times (different seeds)
RTOL = 1e-7
QUAD_TOL = 2e-6     # per library call to scipy.integrate.quad: its default epsabs=epsrel=1.49e-8 is only an estimate and is
                    # exceeded over the density kink at 0 and for narrow bumps (observed up to 3e-7 on the unchanged tree)
MIN_DECAY = 0.25    # touching 0 is compared only when n - activity index >= 0.25 (oracle cannot resolve stronger ones)


class QuadMonitor:
    """Counts the calls the library itself makes to scipy.integrate.quad (module attributes of the model
    modules), so that the tolerance is relaxed to quad's documented accuracy exactly for results that the
    library obtained by numerical quadrature, and stays tight for closed forms."""

    def __init__(self):
        import rpylib.model.levymodel.levymodel as lm
        import rpylib.model.levymodel.purejump.cgmy as cg

        self.n = 0
        self.mods = [lm, cg]
        self.orig = [m.quad for m in self.mods]

        def counted(*a, _orig=self.orig[0], **k):
            self.n += 1
            return _orig(*a, **k)

        for m in self.mods:
            m.quad = counted

    def restore(self):
        for m, o in zip(self.mods, self.orig):
            m.quad = o


def gen_cases(tier, seed):
    rng = np.random.default_rng(seed + 900)
    cases = []
    specs = [s for s in W.fixed_model_specs() if not s["exp"]]
    nrand = 40 if tier == "quick" else 600
    for i in range(nrand):
        fam = W.FAMILIES[i % 4]
        branch = W.CGMY_BRANCHES[(i // 4) % 5] if fam == "CGMY" else None
        specs.append(W.gen_model_spec(rng, fam, branch, exp=False))
    # activity indices a few 1e-6 .. 1e-3 away from 1 (the closed forms switch formula AT 1, not near it)
    for i in range(6 if tier == "quick" else 40):
        sp = W.gen_model_spec(rng, "CGMY", "0<y<1" if i % 2 else "1<y<2", exp=False)
        sp["params"]["y"] = float(1.0 + (-1.0 if i % 2 else 1.0) * (10.0 ** rng.uniform(-5.7, -3.0) if i % 4 < 2 else rng.uniform(4e-6, 9.9e-6)))
        specs.append(sp)
    for k, spec in enumerate(specs):
        trunc = None
        if k % 3 == 1:
            trunc = [-W.r6(W._logu(rng, 0.05, 3.0)), W.r6(W._logu(rng, 0.05, 3.0))]
        elif k % 3 == 2 and k % 2 == 0:
            trunc = [-W.r6(W._logu(rng, 0.3, 8.0)), W.r6(W._logu(rng, 0.3, 8.0))]
        cases.append({"spec": spec, "trunc": trunc, "seed": int(rng.integers(2**31))})
        if trunc and len(cases) % 3 == 0:
            # truncated before, on an interval that the later one extends beyond on one side or on both
            f1, f2 = rng.uniform(0.3, 0.9), rng.uniform(0.3, 1.6)
            cases[-1]["trunc0"] = [W.r6(trunc[0] * f1), W.r6(trunc[1] * f2)]
    return cases


def _intervals(rng, trunc):
    """(class, a, b) list; magnitudes log-uniform in [1e-3, 5]."""
    def mag(lo=1e-3, hi=5.0):
        return W.r6(W._logu(rng, lo, hi))

    out = []
    for _ in range(2):
        a = mag()
        out.append(("pos", a, W.r6(a * rng.uniform(1.05, 30))))
        a = mag()
        out.append(("neg", -W.r6(a * rng.uniform(1.05, 30)), -a))
    out.append(("straddle", -mag(), mag()))
    out.append(("straddle", -mag(0.5, 5), mag(1e-3, 0.05)))
    out.append(("right-inf", mag(), math.inf))
    out.append(("left-inf", -math.inf, -mag()))
    out.append(("whole-line", -math.inf, math.inf))
    out.append(("half-line-from-0", 0.0, math.inf))
    out.append(("half-line-to-0", -math.inf, 0.0))
    out.append(("touch0-right", 0.0, mag()))
    out.append(("touch0-left", -mag(), 0.0))
    a = mag() * (1 if rng.random() < 0.5 else -1)
    out.append(("degenerate", a, a))
    # wide finite intervals (the bulk of the measure is a small part of them)
    out.append(("wide-straddle", -W.r6(rng.uniform(5, 100)), W.r6(rng.uniform(5, 100))))
    out.append(("wide-neg", -W.r6(rng.uniform(20, 100)), -W.r6(rng.uniform(0.1, 0.5))))
    out.append(("wide-pos", W.r6(rng.uniform(0.1, 0.5)), W.r6(rng.uniform(20, 100))))
    if trunc:
        l, r = trunc
        out.append(("beyond-truncation", W.r6(r * 1.5), W.r6(r * 4)))
        out.append(("across-truncation", W.r6(l * 2), W.r6(l * 0.3)))
    return out


def _touches_zero(a, b):
    return a <= 0.0 <= b


def run_case(case, R):
    mon = QuadMonitor()
    try:
        _run_case(case, R, mon)
    finally:
        mon.restore()


def _mech(mname, n):
    if not mname.startswith("integrate_against_xn"):
        return mname
    if n <= 2:
        return f"integrate_against_xn[n={n}]"
    return "integrate_against_xn[n>=3," + ("odd" if n % 2 else "even") + "]"


def _run_case(case, R, mon):
    spec, trunc = case["spec"], case["trunc"]
    rng = np.random.default_rng(case["seed"])
    model = W.build_model(spec)
    base_nu = model.levy_triplet.nu
    density = base_nu.__call__            # the model's own density (un-truncated object)
    nu = base_nu
    label = W.model_label(spec).replace("-levy", "")
    if trunc:
        if case.get("trunc0"):
            # a history of truncations: an earlier one, then `trunc`; the measure is restricted to the intersection
            model.truncate_levy_measure(tuple(case["trunc0"]))
            R.hit("successive_truncations")
            model.truncate_levy_measure(tuple(trunc))
            trunc = [max(trunc[0], case["trunc0"][0]), min(trunc[1], case["trunc0"][1])]
        else:
            model.truncate_levy_measure(tuple(trunc))
        nu = model.levy_triplet.nu
        label_t = label
    else:
        label_t = label
    alpha = W.activity_index(spec)
    breaks = W.density_breakpoints(spec)
    # the CGMY closed forms have a removable singularity at y = 1: at a distance d from it they are conditioned like eps / d
    near_one = None
    if spec["family"] == "CGMY" and 0 < abs(spec["params"]["y"] - 1.0) < 0.04:
        near_one = abs(spec["params"]["y"] - 1.0)
        R.hit("activity_index_next_to_one")

    def rtol_for(a, b):
        """relative tolerance: 1e-7, plus -- next to y = 1 -- the conditioning of the recurrences of the incomplete gamma function, which divide
        a difference of terms of relative size x^2 (x = decay rate times the end point) by (1 - y)"""
        if near_one is None:
            return RTOL
        x = max([(spec["params"]["m"] if e > 0 else spec["params"]["g"]) * abs(e) for e in (a, b) if math.isfinite(e)] + [1.0])
        return RTOL + 1e-12 * (1.0 + x * x) / near_one
    R.evaluation()
    R.klass(label_t)
    nontrivial = False
    scale_cache = {}

    def clip(a, b):
        if not trunc:
            return a, b
        l, r = trunc
        return max(min(a, r), l), min(max(b, l), r)

    def oracle(a, b, n):
        aa, bb = clip(a, b)
        if aa >= bb:
            return 0.0, 0.0
        return Q.integrate_xn(density, aa, bb, n, breaks, alpha)

    def scale(a, b, n):
        """absolute scale for rounding: integral of |x|^n nu over {|x| >= m} (both sides), m = smallest |end point|"""
        ends = [abs(v) for v in (a, b) if math.isfinite(v)]
        m = min(ends) if ends else 0.0
        if a <= 0 <= b:
            m = 0.0
        if n - alpha >= MIN_DECAY:
            m = 0.0     # total |x|^n mass is finite: natural absolute scale
        elif m == 0.0:
            m = 1e-3
        else:
            m = min(m, 1.0)     # far tails are judged on the scale of the mass of the jumps larger than 1 (closed forms cancel there)
        key = (m, n)
        if key not in scale_cache:
            v1, _ = Q.integrate_xn(density, m, math.inf, n, breaks, alpha)
            v2, _ = Q.integrate_xn(density, -math.inf, -m, n, breaks, alpha)
            scale_cache[key] = abs(v1) + abs(v2)
        return scale_cache[key]

    methods = [("integrate", 0, lambda a, b: nu.integrate(a, b), "cmp_integrate"),
               ("integrate_against_x", 1, lambda a, b: nu.integrate_against_x(a, b), "cmp_x"),
               ("integrate_against_xx", 2, lambda a, b: nu.integrate_against_xx(a, b), "cmp_xx")]
    for n in range(0, 7):
        methods.append((f"integrate_against_xn[n={n}]", n, (lambda a, b, n=n: nu.integrate_against_xn(a, b, n)), "cmp_xn"))

    for klass, a, b in _intervals(rng, trunc):
        for mname, n, call, counter in methods:
            if _touches_zero(a, b) and a != b and not Q.finite_near_zero(n, alpha):
                R.skip("integral-not-finite-at-0")
                continue
            if _touches_zero(a, b) and a != b and n - alpha < MIN_DECAY:
                R.skip("singularity-too-strong-for-the-quadrature-oracle")
                continue
            mech_m = _mech(mname, n)
            key_base = f"{label_t}-{mech_m}-{klass}"
            q0 = mon.n
            try:
                with np.errstate(all="ignore"):
                    obs = call(a, b)
                obs = float(np.asarray(obs).reshape(-1)[0]) if np.ndim(obs) else float(obs)
            except Exception as exc:  # noqa: BLE001
                R.hit(counter)
                R.violation(key_base + "-raises", f"{label_t}: nu.{mname}({a}, {b}) raises {type(exc).__name__}: {exc}",
                            {"spec": spec, "trunc": trunc, "a": a, "b": b})
                continue
            nq = mon.n - q0
            R.hit("library_quad_calls" if nq else "closed_form_calls")
            qtol = nq * QUAD_TOL * max(1.0, abs(obs))
            val, err = oracle(a, b, n)
            sc = scale(a, b, n)
            R.hit(counter)
            if trunc:
                R.hit("truncated_cmp")
            if err > 1e-8 * max(sc, 1e-300):
                R.skip("oracle-error-too-large")
                continue
            if abs(val) > 1e-9 * sc and abs(val) > 100 * qtol:
                nontrivial = True
                R.hit("nontrivial_comparisons")
            if not Q.close(obs, val, err, rtol_for(a, b), 1e-12 * sc + qtol):
                R.violation(key_base, f"{label_t}: nu.{mname}({a}, {b}) = {obs!r} but quadrature of x^{n}*nu(x) gives "
                            f"{val!r} (+-{err:.1e})", {"spec": spec, "trunc": trunc, "a": a, "b": b, "n": n,
                                                       "observed": obs, "oracle": val, "oracle_err": err})
                continue
            # sign rules
            R.hit("sign_rule")
            tol = 1e-12 * sc + 10 * err + qtol
            if n % 2 == 0 and obs < -tol:
                R.violation(key_base + "-sign", f"{label_t}: even moment nu.{mname}({a},{b}) = {obs} is negative", {"spec": spec})
            if n % 2 == 1 and (b <= 0 and obs > tol or a >= 0 and obs < -tol):
                R.violation(key_base + "-sign", f"{label_t}: odd moment nu.{mname}({a},{b}) = {obs} has the wrong sign",
                            {"spec": spec})
            # additivity over a random split point (closed forms only, no oracle involved)
            if a < b and klass != "degenerate":
                lo = a if math.isfinite(a) else (min(b, 0) - 3.0)
                hi = b if math.isfinite(b) else (max(a, 0) + 3.0)
                c = W.r6(lo + (hi - lo) * rng.uniform(0.1, 0.9))
                if a < c < b and not (c == 0.0):
                    if (a <= 0 <= c or c <= 0 <= b) and not Q.finite_near_zero(n, alpha):
                        pass
                    else:
                        try:
                            q1 = mon.n
                            with np.errstate(all="ignore"):
                                s = float(call(a, c)) + float(call(c, b))
                            R.hit("additivity")
                            qtol2 = qtol + (mon.n - q1) * QUAD_TOL * max(1.0, abs(obs))
                            if not (abs(s - obs) <= 1e-9 * abs(obs) + 1e-11 * sc + qtol2):
                                R.violation(key_base + "-additivity", f"{label_t}: nu.{mname} not additive: [{a},{c}] + [{c},{b}] = "
                                            f"{s!r} but [{a},{b}] = {obs!r}", {"spec": spec, "trunc": trunc, "a": a, "c": c, "b": b})
                        except Exception as exc:  # noqa: BLE001
                            R.violation(key_base + "-raises", f"{label_t}: nu.{mname} raises on a sub-interval: {exc}", {"spec": spec})
    # truncated density vanishes outside, equals the base density inside
    if trunc:
        l, r = trunc
        for x in [l * 1.0000001, l * 3, r * 1.0000001, r * 3, l - 1e-9, r + 1e-9]:
            R.hit("truncated_density")
            if float(nu(x)) != 0.0:
                R.violation(f"{label_t}-density-outside", f"truncated density nu({x}) = {nu(x)} != 0 outside [{l},{r}]", {"spec": spec})
        for x in [l * 0.999, r * 0.999, l * 0.5, r * 0.01]:
            R.hit("truncated_density")
            if float(nu(x)) != float(density(x)):
                R.violation(f"{label_t}-density-inside", f"truncated density differs from the base density at {x}", {"spec": spec})
    # high moments of the variance-gamma measure over the half-lines and the whole line (n = 0, 1, 2, 3, ... has no upper end): exact value
    # c Gamma(n) / lambda^n on each side, written here
    if spec["family"] == "VG" and not trunc:
        p_ = spec["params"]
        s2 = p_["sigma"] ** 2
        lam_p = (math.sqrt(p_["theta"] ** 2 + 2 * s2 / p_["nu"]) - p_["theta"]) / s2        # decay rate of the positive side
        lam_m = lam_p + 2 * p_["theta"] / s2                                                  # ... of the negative side
        c_ = 1.0 / p_["nu"]
        for n in (9, 14, 20, 21, 22, 25, 31):
            right = c_ * math.gamma(n) / lam_p**n
            left = (-1.0) ** n * c_ * math.gamma(n) / lam_m**n
            for (a, b, want_) in ((0.0, math.inf, right), (-math.inf, 0.0, left), (-math.inf, math.inf, right + left)):
                try:
                    with np.errstate(all="ignore"):
                        got_ = float(nu.integrate_against_xn(a, b, n))
                except Exception as exc:  # noqa: BLE001
                    R.violation(f"{label_t}-integrate_against_xn[high-n]-raises", f"{label_t}: nu.integrate_against_xn({a}, {b}, {n}) raises {type(exc).__name__}: {exc}", {"spec": spec})
                    continue
                R.hit("high_moment_comparisons")
                if not (abs(got_ - want_) <= 1e-9 * (abs(right) + abs(left))):
                    R.violation(f"{label_t}-integrate_against_xn[n>=21]-half-line" if n >= 21 else f"{label_t}-integrate_against_xn[9<=n<=20]-half-line",
                                f"{label_t}: nu.integrate_against_xn({a}, {b}, {n}) = {got_!r}, exact value c Gamma(n) / lambda^n = {want_!r}", {"spec": spec, "n": n})
    if nontrivial:
        R.nontrivial_case(label_t, spec["params"], trunc)
    R.sample({"model": spec, "trunc": trunc, "example_interval": _intervals(np.random.default_rng(case["seed"]), trunc)[0]})
