"""C10 -- exponent, triplet, cumulants and simulation drifts describe one same process.

Monitor: model.levy_exponent on real and imaginary arguments, model.cumulant.cumulantN, LevyTriplet.set_representation
under generated sequences, the martingale identity through the three pricing routes.
Oracle: Levy-Khintchine integral by quadrature of the model's own density in the DECLARED representation;
cumulants by Cauchy integrals of the exponent on a circle (no finite differences).
"""
from __future__ import annotations

import cmath
import math

import numpy as np

from .. import workloads as W
from ..oracles import quadrature as Q

ID = "C10"
RULE = ("case = model spec (every family, the five CGMY branches, Levy and exponential): 12 real arguments u in [-40, 40] and 6 "
        "imaginary ones inside the strip of analyticity compared with the Levy-Khintchine quadrature in the declared "
        "representation; cumulants 1..6 (those implemented) vs Cauchy integrals; a random sequence of 6 representation changes; "
        "martingale identity by the three routes for exponential models; non-trivial = model with jumps; distinct = distinct spec")
ASSUMPTIONS = [
    "quadrature tolerance 1e-7 (|value| + scale) + 10 err; arguments whose integrand is not integrable at 0 in the declared "
    "representation (or with n - activity < 0.25) are skipped and counted",
    "Cauchy integral with 96 nodes on a circle of radius 0.4 x distance to the nearest singularity of the exponent",
]
REQUIRED_COUNTERS = ["exponent_real_axis", "exponent_imaginary_axis", "cumulant_checks", "conversion_roundtrips",
                     "conversion_differences", "martingale_cf", "martingale_direct_drift", "martingale_chain_drift", "models_reached_by_parameter_update", "exponent_after_conversion",
                     "truncated_measure_drifts", "chain_model_drifts", "chain_process_drifts"]
MIN_NONTRIVIAL = {"quick": 30, "thorough": 300}
THOROUGH_ROUNDS = 8      # the thorough tier runs the generators this many times (different seeds)
SHARD_TIMEOUT = {"quick": 900, "thorough": 7200}


def gen_cases(tier, seed):
    rng = np.random.default_rng(seed + 1000)
    specs = list(W.fixed_model_specs())
    n = 16 if tier == "quick" else 400
    for i in range(n):
        fam = W.FAMILIES[i % 4]
        br = W.CGMY_BRANCHES[(i // 4) % 5] if fam == "CGMY" else None
        sp = W.gen_model_spec(rng, fam, br, exp=bool(rng.random() < 0.5))     # (drawn: a modulo rule ties Levy / exponential to the family cycle)
        if rng.random() < 0.4:     # parameters reached by assignment + initialisation() from another parameter set of the family
            sp["start"] = W.gen_model_spec(rng, fam, br, exp=False)
        specs.append(sp)
    # exponential models that can be simulated directly, their parameter object having gone through assignments + initialisation()
    for k, fam in enumerate(("HEM", "MERTON", "HEM", "VG", "CGMY", "VG", "CGMY", "CGMY")):
        br = W.CGMY_BRANCHES[(k + seed) % 5] if fam == "CGMY" else None
        sp = W.gen_model_spec(rng, fam, br, exp=(k < 5))
        sp["start"] = W.gen_model_spec(rng, fam, br, exp=False)
        specs.append(sp)
    specs.append({"family": "BS", "params": {"sigma": 0.3}, "exp": True, "spot": 100.0, "r": 0.05, "d": 0.02})
    return [{"spec": s, "seed": int(rng.integers(2**31))} for s in specs]


def _strip(spec):
    """(s_min, s_max): open interval of real s for which E exp(s L_1) is finite"""
    p = spec["params"]
    f = spec["family"]
    if f == "HEM":
        return -p["eta2"], p["eta1"]
    if f == "MERTON" or f == "BS":
        return -60.0, 60.0
    if f == "VG":
        s2, nu, th = p["sigma"] ** 2, p["nu"], p["theta"]
        root = math.sqrt(th**2 + 2 * s2 / nu)
        return (-th - root) / s2, (-th + root) / s2
    return -p["g"], p["m"]


def _h(rep, fv):
    if rep == "ZERO" or (rep == "TILDE" and fv):
        return lambda x: 0.0
    if rep == "CENTER":
        return lambda x: x
    return lambda x: x if abs(x) < 1 else 0.0


def _lk(dens, rep, fv, alpha, br, z):
    """integral (exp(z x) - 1 - z h(x)) nu(dx) for complex z, by quadrature of real and imaginary parts; None if not finite."""
    h = _h(rep, fv)
    order = 1 if (rep == "ZERO" or (rep == "TILDE" and fv)) else 2   # integrand ~ x^order near 0
    if order - alpha < 0.25:
        return None
    cuts = list(br) + [-1.0, 1.0]

    def val(x):
        d = dens(x)
        if d == 0.0:
            return 0j
        w = z * x
        hx = h(x)
        if abs(w) < 0.05:
            # exp(w) - 1 - z h(x) without cancellation: Taylor series, the linear term dropped exactly when h(x) = x
            term, tot = w, (0j if hx == x else w)
            for k in range(2, 14):
                term = term * w / k
                tot += term
            if hx != x:
                tot -= z * hx
            return tot * d
        try:
            return (cmath.exp(w) - 1 - z * hx) * d
        except OverflowError:
            return complex(math.inf, 0.0)

    def re(x):
        return val(x).real

    def im(x):
        return val(x).imag

    # extra break points for oscillating integrands
    w = abs(z.imag)
    if w > 0:
        per = 2 * math.pi / w
        k = 1
        while k * per < 6.0 and k < 200:
            cuts += [k * per, -k * per]
            k += 1
    vr, er = Q.integrate_general(re, -math.inf, math.inf, cuts, order - alpha)
    vi, ei = (0.0, 0.0) if z.imag == 0 else Q.integrate_general(im, -math.inf, math.inf, cuts, order - alpha)
    return complex(vr, vi), er + ei


def _build(spec, case):
    return W.build_model_via_update(spec, spec["start"], case["seed"]) if spec.get("start") else W.build_model(spec)


def run_case(case, R):
    R.evaluation()
    spec = case["spec"]
    rng = np.random.default_rng(case["seed"])
    label = W.model_label(spec)
    if spec.get("start"):
        model = W.build_model_via_update(spec, spec["start"], case["seed"])
        R.hit("models_reached_by_parameter_update")
    else:
        model = W.build_model(spec)
    base = model.levy_model if spec.get("exp") else model
    wit = {"spec": spec}
    R.klass(label)
    trip = base.levy_triplet
    rep0 = trip.representation.name
    a0, sigma = float(trip.a), float(trip.sigma)
    dens = trip.nu.__call__
    alpha, br = W.activity_index(spec), W.density_breakpoints(spec)
    fv = bool(base.jump_of_finite_variation())
    has_jumps = spec["family"] != "BS"
    fam = label.split("-")[0]

    def lk_exponent(z):
        """psi(z) with E exp(z L_1) = exp(psi(z)) from (a, sigma, density, declared representation)"""
        if not has_jumps:
            return a0 * z + 0.5 * sigma**2 * z * z, 0.0
        r = _lk(dens, rep0, fv, alpha, br, z)
        if r is None:
            return None
        v, e = r
        return a0 * z + 0.5 * sigma**2 * z * z + v, e

    # ---- (i) exponent on the real axis (characteristic exponent) and on the imaginary axis ---------------------------------
    smin, smax = _strip(spec)
    for u in [float(x) for x in np.concatenate([rng.uniform(-40, 40, size=9), [0.5, -3.0, 17.0]])]:
        z = complex(0.0, u)
        want = lk_exponent(z)
        if want is None:
            R.skip("exponent-oracle-singularity-too-strong")
            break
        got = complex(base.levy_exponent(u))
        R.hit("exponent_real_axis")
        w, e = want
        scale = abs(w) + abs(a0 * u) + 0.5 * sigma**2 * u * u + 1e-3
        if e > 1e-7 * scale:
            R.skip("exponent-oracle-inconclusive")
            continue
        if not (abs(got - w) <= 3e-7 * scale + 10 * e):
            lin = (got - w).imag / u if u else 0.0
            kind = "linear-term" if abs((got - w).real) < 1e-6 * scale else "other"
            R.violation(f"{fam}-exponent-vs-declared-triplet-{kind}", f"{label}: levy_exponent({u!r}) = {got!r} but the Levy-Khintchine "
                        f"integral from (a = {a0!r}, sigma = {sigma!r}, density, representation {rep0}) is {w!r}; the difference is "
                        f"{got - w!r} (= {lin!r} * i u)", wit)
            break
    for frac in [0.15, 0.45, 0.8, -0.15, -0.45, -0.8]:
        s = frac * (smax if frac > 0 else -smin)
        want = lk_exponent(complex(s, 0.0))
        if want is None:
            R.skip("exponent-oracle-singularity-too-strong")
            break
        got = complex(base.levy_exponent(-1j * s))
        R.hit("exponent_imaginary_axis")
        w, e = want
        scale = abs(w) + abs(a0 * s) + 1e-3
        if e > 1e-7 * scale:
            R.skip("exponent-oracle-inconclusive")
            continue
        if not (abs(got - w) <= 1e-7 * scale + 10 * e):
            R.violation(f"{fam}-moment-generating-exponent-vs-declared-triplet", f"{label}: levy_exponent(-i*{s!r}) = {got!r}, Levy-Khintchine "
                        f"integral in {rep0}: {w!r}", wit)
            break
    # ---- (ii) cumulants = derivatives of the exponent at 0 (Cauchy integrals) -------------------------------------------------
    rho = 0.4 * min(abs(smin), abs(smax), 5.0)
    nodes = 96
    ks = np.arange(nodes)
    zs = rho * np.exp(2j * np.pi * ks / nodes)
    try:
        Ks = np.array([complex(base.levy_exponent(-1j * z)) for z in zs])
    except Exception as exc:  # noqa: BLE001
        R.violation(f"{fam}-exponent-raises-on-complex-argument", f"{label}: levy_exponent raises {type(exc).__name__}: {exc}", wit)
        Ks = None
    if Ks is not None:
        for n in range(1, 7):
            fn = getattr(base.cumulant, f"cumulant{n}")
            try:
                stated = float(fn(1.0))
            except NotImplementedError:
                continue
            kappa = math.factorial(n) * np.mean(Ks * zs ** (-n)).real
            R.hit("cumulant_checks")
            t2 = float(fn(2.5))
            if not (abs(t2 - 2.5 * stated) <= 1e-12 * (1 + abs(stated))):
                R.violation(f"{fam}-cumulant-not-linear-in-time", f"{label}: cumulant{n}(2.5) = {t2!r} != 2.5 * cumulant{n}(1) = {2.5 * stated!r}", wit)
            tol = 1e-8 * (abs(kappa) + math.factorial(n) * np.max(np.abs(Ks)) * rho ** (-n) * 1e-6)
            if not (abs(stated - kappa) <= tol + 1e-12):
                R.violation(f"{fam}-cumulant{n}-vs-exponent", f"{label}: cumulant{n}(1) = {stated!r} but the {n}-th derivative of the exponent at 0 "
                            f"is {kappa!r}", wit)
    # ---- (iii) representation changes ------------------------------------------------------------------------------------------
    if has_jumps:
        from rpylib.model.levymodel.levymodel import LevyRepresentation

        m2 = _build(spec, case)
        # another model is constructed after this one and before its triplet is converted (state shared between triplet instances
        # would make the conversions below use the newest model's measure)
        decoy = W.build_model({"family": "HEM", "params": {"sigma": 0.2, "p": 0.3, "eta1": 9.0, "eta2": 4.0, "intensity": 6.0}, "exp": False})
        decoy.levy_triplet.set_representation(LevyRepresentation.ONEONE)
        t2 = (m2.levy_model if spec.get("exp") else m2).levy_triplet
        reps = ["CENTER", "ONEONE", "TILDE"] + (["ZERO"] if fv else [])
        seq = [str(rng.choice(reps)) for _ in range(6)] + [rep0]
        cur_rep, cur_a = rep0, float(t2.a)
        ok = True
        base2 = m2.levy_model if spec.get("exp") else m2
        smin, smax = _strip(spec)
        probe = [0.7, -2.3, -1j * 0.4 * smax, -1j * 0.4 * smin]      # real arguments and imaginary ones inside the strip of finite exponential moments
        psi0 = [complex(base2.levy_exponent(z)) for z in probe]
        for nxt in seq:
            try:
                t2.set_representation(getattr(LevyRepresentation, nxt))
            except Exception as exc:  # noqa: BLE001
                R.violation(f"{fam}-set-representation-raises", f"{label}: set_representation({nxt}) from {cur_rep} raises {type(exc).__name__}: {exc}", wit)
                ok = False
                break
            new_a = float(t2.a)
            # a_new - a_old = integral (h_old - h_new) d nu
            ho, hn = _h(cur_rep, fv), _h(nxt, fv)
            order = 1
            if 1 - alpha < 0.25 and any((ho(x) - hn(x)) != 0 for x in (1e-3, -1e-3)):
                R.skip("conversion-oracle-singularity-too-strong")
            else:
                v, e = Q.integrate_general(lambda x: (ho(x) - hn(x)) * dens(x), -math.inf, math.inf, list(br) + [-1.0, 1.0], 1 - alpha if 1 - alpha > 0 else 1.0)
                R.hit("conversion_differences")
                if not (abs((new_a - cur_a) + v) <= 1e-8 * (abs(v) + abs(new_a) + abs(cur_a) + 1e-6) + 10 * e):
                    R.violation(f"{fam}-conversion-{cur_rep}-to-{nxt}", f"{label}: a changes by {new_a - cur_a!r} from {cur_rep} to {nxt}, the integral of "
                                f"(h_{nxt} - h_{cur_rep}) d nu is {-v!r}", wit)
                    ok = False
                    break
            cur_rep, cur_a = nxt, new_a
            # re-declaring the triplet in another representation does not change the process: the exponent must stay what it was
            R.hit("exponent_after_conversion")
            psi = [complex(base2.levy_exponent(z)) for z in probe]
            dev = max(abs(p1 - p0) for p1, p0 in zip(psi, psi0))
            if not (dev <= 1e-9 * (1 + max(abs(p0) for p0 in psi0))):
                R.violation(f"{fam}-exponent-changes-with-declared-representation", f"{label}: after set_representation({nxt}) levy_exponent({probe}) = {psi}, "
                            f"it was {psi0} in {rep0} (same process, triplet re-declared)", wit)
                ok = False
                break
        if ok:
            R.hit("conversion_roundtrips")
            if not (abs(cur_a - a0) <= 1e-11 * (1 + abs(a0)) + 1e-12):
                R.violation(f"{fam}-conversion-not-reversible", f"{label}: after the sequence {seq} the drift is {cur_a!r}, it was {a0!r} in {rep0}", wit)
        # ---- (iii-b) the measure truncated (what every Markov-chain process does with its copy of the model, then TILDE): the declared
        #      (drift, representation) of the truncated model is still the one of the same process with the jumps outside the interval
        #      removed:  a_after - a_before = integral over the interval of (h_after - h_before) d nu
        from .. import gridspec as G
        from ..chain import sampling_method

        m5 = _build(spec, case)
        b5 = m5.levy_model if spec.get("exp") else m5
        lo, hi = -float(rng.uniform(0.4, 3.0)), float(rng.uniform(0.4, 3.0))

        def judge_truncated(trip5, lo5, hi5, how):
            rep5 = trip5.representation.name
            h5, h0_ = _h(rep5, fv), _h(rep0, fv)
            if 1 - alpha < 0.25 and any((h5(x) - h0_(x)) != 0 for x in (1e-3, -1e-3)):
                if rep5 != "TILDE":
                    R.violation(f"{fam}-truncation-changes-the-declared-representation", f"{label}: {how}: representation {rep5}, it was {rep0} "
                                "(the two are not convertible for this activity index)", wit)
                else:
                    R.skip("conversion-oracle-singularity-too-strong")
                return
            v, e = Q.integrate_general(lambda x: (h5(x) - h0_(x)) * dens(x), lo5, hi5, [b for b in list(br) + [-1.0, 1.0, 0.0] if lo5 < b < hi5], 1 - alpha if 1 - alpha > 0 else 1.0)
            R.hit("truncated_measure_drifts")
            got = float(trip5.a)
            if not (abs(got - a0 - v) <= 1e-8 * (abs(v) + abs(got) + abs(a0) + 1e-6) + 10 * e):
                R.violation(f"{fam}-truncated-measure-drift-{'after-conversion' if rep5 != rep0 and how.startswith('Markov') else 'declared'}",
                            f"{label}: {how} on [{lo5!r}, {hi5!r}]: drift {got!r} in {rep5}; the model's drift {a0!r} in {rep0} plus the integral of "
                            f"(h_{rep5} - h_{rep0}) d nu over the interval is {a0 + v!r}", wit)

        try:
            b5.truncate_levy_measure((lo, hi))
            judge_truncated(b5.levy_triplet, lo, hi, "truncate_levy_measure")
            b5.levy_triplet.set_representation(LevyRepresentation.TILDE)
            judge_truncated(b5.levy_triplet, lo, hi, "truncate_levy_measure then set_representation(TILDE)")
        except Exception as exc:  # noqa: BLE001
            R.violation(f"{fam}-truncate-levy-measure-raises", f"{label}: {type(exc).__name__}: {exc}", wit)
        if case["seed"] % 2 == 0:
            from rpylib.process.markovchain.markovchain import MarkovChainProcess

            m6 = _build(spec, case)
            try:
                grid = G.build_grid({"ctor": "fixed", "dim": 1, "h": float(rng.uniform(0.02, 0.1)), "n": int(rng.integers(5, 30))}, m6)
                proc = MarkovChainProcess(model=m6, method=sampling_method("ALIAS"), grid=grid)
                pm = proc.model.levy_model if spec.get("exp") else proc.model
                lo6, hi6 = (float(t) for t in grid.truncations[0])
                R.hit("chain_model_drifts")
                judge_truncated(pm.levy_triplet, lo6, hi6, "Markov-chain process's model")
                # ... and the drift the chain really uses: deterministic drift + rate-weighted grid states = mean per unit time of the process
                # with its jumps restricted to the grid bounds, in the DECLARED representation (every activity index, y = 1 included)
                from rpylib.product.product import Product
                from rpylib.product.underlying import Spot
                from rpylib.product.payoff import Forward
                from .. import chain as C

                proc.initialisation(Product(payoff_underlying=Spot(), payoff=Forward(strike=0.0), maturity=1.0))
                pd6 = float(np.asarray(proc.process_drift(), dtype=float).reshape(-1)[0])
                rates6, errs6, _, _, _ = C.oracle_rates_1d(spec, base, grid)
                mean_jumps = float(np.dot(np.asarray(grid.axes[0], dtype=float), rates6))
                h0_ = _h(rep0, fv)
                if 1 - alpha < 0.25 and any((x - h0_(x)) != 0 for x in (1e-3, -1e-3)):
                    R.skip("chain-drift-oracle-singularity-too-strong")
                else:
                    comp6, e6 = Q.integrate_general(lambda x: (x - h0_(x)) * dens(x), lo6, hi6, [b for b in list(br) + [-1.0, 1.0, 0.0] if lo6 < b < hi6], 1 - alpha if 1 - alpha > 0 else 1.0)
                    want6 = float(m6.drift()) + a0 + comp6
                    R.hit("chain_process_drifts")
                    if not (abs(pd6 + mean_jumps - want6) <= 1e-8 * (1 + abs(want6) + abs(mean_jumps) + abs(pd6)) + 10 * (e6 + float(np.dot(np.abs(grid.axes[0]), errs6)))):
                        R.violation(f"{fam}-chain-process-drift", f"{label}: process_drift() of the Markov chain = {pd6!r}; with the rate-weighted grid states "
                                    f"({mean_jumps!r}) the chain has mean {pd6 + mean_jumps!r} per unit time, the process restricted to the grid bounds {want6!r} "
                                    f"(declared {rep0}, a = {a0!r})", wit)
            except Exception as exc:  # noqa: BLE001
                R.violation(f"{fam}-chain-construction-raises", f"{label}: {type(exc).__name__}: {exc}", wit)
    else:
        R.hit("conversion_roundtrips", 0)
    # ---- (iv) martingale identity through the three routes (exponential models) ---------------------------------------------------
    if spec.get("exp"):
        r, dd = spec["r"], spec["d"]
        T = 1.7
        # route 1: characteristic function at -i
        R.hit("martingale_cf")
        m1 = complex(model.log_characteristic_function(T, -1j))
        fwd = spec["spot"] * math.exp((r - dd) * T)
        if not (abs(m1 - fwd) <= 1e-9 * fwd):
            R.violation(f"{fam}-martingale-cf", f"{label}: E[S_T] from the characteristic function at -i = {m1!r}, forward = {fwd!r}", wit)
        # ... and under the exact jump law: drift() + psi_LK(1) = r - d
        want = lk_exponent(complex(1.0, 0.0)) if smax > 1.0 else None
        if want is not None and want[1] < 1e-9:
            g = float(model.drift()) + want[0].real
            if not (abs(g - (r - dd)) <= 1e-7 * (1 + abs(want[0].real)) + 10 * want[1]):
                R.violation(f"{fam}-martingale-cf-under-exact-jump-law", f"{label}: log-growth drift() + psi(1) by quadrature = {g!r}, r - d = {r - dd!r}", wit)
        # route 2: drift used by the direct simulation (finite-activity models that can be simulated directly)
        if spec["family"] in ("HEM", "MERTON", "BS"):
            R.hit("martingale_direct_drift")
            pd = float(model.process_drift())
            if has_jumps:
                comp, e = Q.integrate_general(lambda x: math.expm1(x) * dens(x) if dens(x) else 0.0, -math.inf, math.inf, list(br) + [-1.0, 1.0], 2.0)
            else:
                comp, e = 0.0, 0.0
            g = pd + 0.5 * sigma**2 + comp
            if not (abs(g - (r - dd)) <= 1e-8 * (1 + abs(comp)) + 10 * e):
                R.violation(f"{fam}-martingale-direct-simulation-drift", f"{label}: process_drift {pd!r} + sigma^2/2 + integral (e^x - 1) nu = {g!r} "
                            f"but r - d = {r - dd!r} (sigma = {sigma!r})", wit)
        # route 3: drift used by the Markov-chain approximation: TILDE representation on the un-truncated measure
        if has_jumps:
            from rpylib.model.levymodel.levymodel import LevyRepresentation

            m3 = _build(spec, case)
            m3.levy_triplet.set_representation(LevyRepresentation.TILDE)
            a_t = float(m3.levy_triplet.a)
            hT = _h("TILDE", fv)
            order = 1 if fv else 2
            if order - alpha >= 0.25 and smax > 1.0:
                comp, e = Q.integrate_general(lambda x: ((math.expm1(x) - hT(x)) if (abs(x) > 0.05 or hT(x) != x) else sum(x**k / math.factorial(k) for k in range(2, 14))) * dens(x) if dens(x) else 0.0, -math.inf, math.inf, list(br) + [-1.0, 1.0], order - alpha)
                g = float(m3.drift()) + a_t + 0.5 * sigma**2 + comp
                R.hit("martingale_chain_drift")
                if not (abs(g - (r - dd)) <= 1e-7 * (1 + abs(comp) + abs(a_t)) + 10 * e):
                    R.violation(f"{fam}-martingale-chain-drift", f"{label}: drift() + a_TILDE + sigma^2/2 + integral (e^x - 1 - h_TILDE) nu = {g!r}, "
                                f"r - d = {r - dd!r}", wit)
            else:
                R.skip("chain-drift-oracle-singularity-too-strong")
    if has_jumps:
        R.nontrivial_case(label, spec["params"], spec.get("exp"))
    R.sample({"spec": spec, "declared": {"a": a0, "sigma": sigma, "representation": rep0}, "strip": [smin, smax]})
