"""C19 -- credit closed forms equal the default-region jump rate of the benchmarked chain.

Monitor: per-state rates of real chains built on CTMCCredit grids (recorded as in C01), CFLevyModel / CFLevyCopulaModel
outputs, CDS.evaluate.  Oracle: quadrature (1-d), harness-side Levy-copula mass of the default region obtained from a
different decomposition (inclusion-exclusion of half-spaces), a-priori slack for the mass outside the box, quadrature
of the CDS payoff against the exponential default-time law.
"""
from __future__ import annotations

import itertools
import math

import numpy as np
from scipy.integrate import quad

from .. import chain as C, gridspec as G, workloads as W
from ..oracles import quadrature as Q

ID = "C19"
RULE = ("case = (exponential model | copula of exponential models d = 2, 3, credit grid symmetric / asymmetric with generated "
        "thresholds, recovery, maturity): default-region rate of the chain vs closed form of the truncated model (1-d, exact) or vs "
        "harness inclusion-exclusion mass in the box and the closed form within the mass outside the box (n-d); closed form = "
        "inclusion-exclusion of half-space masses; monotone in each threshold; survival / spread relations and inverses; E[CDS "
        "payoff] by quadrature; non-trivial = default intensity > 1e-9; distinct = distinct seed")
ASSUMPTIONS = ["thresholds strictly between the left truncation and -h (C13 domain); copulas with finite-variation margins",
               "copula callable trusted (C11); tail integrals by quadrature"]
REQUIRED_COUNTERS = ["deep_threshold_monotonicity_checks", "deep_threshold_clayton_checks", "zero_recovery_cases", "other_model_priced_at_the_same_thresholds_before", "chain_vs_closed_form_1d", "chain_vs_region_mass_nd", "closed_form_vs_inclusion_exclusion", "monotonicity_checks", "default_rate_of_the_adapted_tree_sampler", "first_to_default_times_on_simulated_paths",
                     "relation_checks", "inverse_roundtrips", "cds_expectation_checks", "threshold_on_cell_boundary"]
MIN_NONTRIVIAL = {"quick": 30, "thorough": 400}
THOROUGH_ROUNDS = 20      # the thorough tier runs the generators this many times (different seeds)
SHARD_TIMEOUT = {"quick": 900, "thorough": 7200}


def gen_cases(tier, seed):
    rng = np.random.default_rng(seed + 1900)
    n = 40 if tier == "quick" else 600
    # (dimension cycle of length 5, copula cycle of length 4: every combination appears)
    return [{"seed": int(rng.integers(2**31)), "dim": [1, 1, 2, 2, 3][i % 5], "sym": bool(i % 2),
             "copula": ["clayton-interior", "dependent", "clayton", "independent"][i % 4]} for i in range(n)]


def run_case(case, R):
    import warnings

    warnings.simplefilter("ignore")
    R.evaluation()
    rng = np.random.default_rng(case["seed"])
    d = case["dim"]
    if d == 1:
        _one(case, R, rng)
    else:
        _nd(case, R, rng)


def _relations(R, cf_theta, survival, spread, wit, tag):
    rec, t = wit["recovery"], wit["t"]
    R.hit("relation_checks")
    if not (abs(survival - math.exp(-t * cf_theta)) <= 1e-13):
        R.violation(f"{tag}-survival-not-exp", f"survival {survival!r} vs exp(-t theta) = {math.exp(-t * cf_theta)!r}", wit)
    if not (abs(spread - (1 - rec) * cf_theta) <= 1e-13 * (1 + cf_theta)):
        R.violation(f"{tag}-spread-not-(1-R)theta", f"spread {spread!r} vs (1-R) theta = {(1 - rec) * cf_theta!r}", wit)


def _cds_expectation(R, model_r, theta, rec, T, spread, implied, wit, tag):
    """E[CDS.evaluate(tau)] * df(T) for tau ~ Exp(theta) = default leg - spread * fixed leg; implied_cds_spread inverts it"""
    from rpylib.product.payoff import CDS

    def dfun(t):
        return math.exp(-model_r * t)

    cds = CDS(recovery_rate=rec, spread=spread, maturity=T, discounting=dfun)
    v1, e1 = quad(lambda t: float(cds.evaluate(t)) * theta * math.exp(-theta * t), 0, T, epsabs=1e-13, epsrel=1e-12)
    tail = float(cds.evaluate(T * 1.5)) * math.exp(-theta * T)       # default after the maturity
    pv = (v1 + tail) * dfun(T)
    R.hit("cds_expectation_checks")
    dleg = (1 - rec) * (1 - math.exp(-(model_r + theta) * T)) * theta / (model_r + theta)
    fleg = (1 - math.exp(-(model_r + theta) * T)) / (model_r + theta)
    if not (abs(pv - (dleg - spread * fleg)) <= 1e-9 * (1 + abs(dleg))):
        R.violation(f"{tag}-cds-expectation", f"E[CDS payoff] df(T) = {pv!r} by quadrature, default leg - spread * fixed leg = {dleg - spread * fleg!r}", wit)
    if not (-4.9 < spread < 9.9):
        R.skip("spread outside the search interval of implied_cds_spread")
        return
    s_back = implied(pv)
    R.hit("inverse_roundtrips")
    if not (abs(s_back - spread) <= 1e-8 * (1 + abs(spread))):
        R.violation(f"{tag}-implied-spread-does-not-invert", f"implied_cds_spread(pv(spread = {spread!r})) = {s_back!r}", wit)


def _one(case, R, rng):
    from rpylib.numerical.closedform.cflevymodel import CFLevyModel

    spec = W.gen_model_spec(rng, exp=True)
    spec["r"] = max(spec["r"], 0.005) if rng.random() < 0.8 else 0.0        # (zero interest rates are rates too)
    if spec["family"] == "MERTON":
        spec["params"]["sigma_j"] = max(spec["params"]["sigma_j"], 0.08)
        spec["params"]["mu_j"] = min(spec["params"]["mu_j"], 0.05)
    model = W.build_model(spec)
    ref_model = W.build_model(spec)          # never handed to the library's chain / closed forms: source of the oracle's density
    g = G.gen_grid_spec(rng, "credit", 1)
    try:
        grid = G.build_grid(g, model)
    except (G.OutsideDomain, ValueError) as exc:
        R.skip("outside-domain: " + type(exc).__name__)
        return
    a = g["_levels"][0]
    rec_, t, T = float(rng.uniform(0, 0.9)), float(rng.uniform(0.1, 10)), float(rng.uniform(0.5, 10))
    if case["seed"] % 4 == 0:
        rec_ = 0.0          # nothing recovered: a recovery rate like any other
        R.hit("zero_recovery_cases")
    wit = {"model": spec, "grid": g, "level": a, "recovery": rec_, "t": t}
    axis = np.asarray(grid.axes[0], dtype=float)
    R.hit("threshold_on_cell_boundary")
    if abs(0.5 * (axis[1] + axis[2]) - a) > 1e-15 * abs(a) + 1e-18 or not (axis[1] < a < axis[2]):
        R.violation("credit-threshold-not-on-cell-boundary", f"states {axis[1]!r}, {axis[2]!r}: mid-point {0.5 * (axis[1] + axis[2])!r} != threshold {a!r}", wit)
    proc, recd = C.build_chain(model, grid, "BINARYSEARCHTREE", False)
    lam = float(proc.intensity_of_jumps)
    rates = recd.jump_vectors[-1] * lam
    below = float(np.sum(rates[axis < a]))
    cf_trunc = float(CFLevyModel(proc.model)._theta(a))
    dens = ref_model.levy_triplet.nu.__call__
    al, br = W.activity_index(spec), W.density_breakpoints(spec)
    qd, e = Q.integrate_xn(dens, float(axis[0]), a, 0, br, al)
    R.hit("chain_vs_closed_form_1d")
    if not (abs(below - cf_trunc) <= 1e-12 * (1 + cf_trunc)):
        R.violation("1d-default-rate-vs-closed-form", f"rate of the states below the threshold {below!r}, closed form of the truncated model {cf_trunc!r}", wit)
    if not (abs(below - qd) <= 1e-8 * qd + 10 * e + 1e-13 * lam):
        R.violation("1d-default-rate-vs-quadrature", f"rate of the states below the threshold {below!r}, quadrature mass of (l, a) {qd!r}", wit)
    cf = CFLevyModel(model)
    theta = float(cf._theta(a))
    qfull, e2 = Q.integrate_xn(dens, -math.inf, a, 0, br, al)
    R.hit("closed_form_vs_inclusion_exclusion")
    if not (abs(theta - qfull) <= 1e-8 * qfull + 10 * e2 + 1e-13):
        R.violation("1d-theta-vs-quadrature", f"theta = {theta!r}, quadrature mass of (-inf, a) = {qfull!r}", wit)
    R.hit("monotonicity_checks")
    a2 = a * 0.9
    if float(cf._theta(a2)) < theta - 1e-13 * (1 + theta):
        R.violation("1d-theta-not-increasing", f"theta({a2}) < theta({a})", wit)
    _relations(R, theta, float(cf.survival_probability(a, t)), float(cf.cds_spread(a, rec_)), wit, "1d")
    spread = float(cf.cds_spread(a, rec_))
    if 1e-8 < spread < 5:
        R.hit("inverse_roundtrips")
        try:
            a_back = float(cf.implied_cds_threshold(spread, rec_, h0=g["_h"]))
            dth = abs(float(cf._theta(a_back)) - theta)
            if dth > 1e-8 * (1 + theta):
                R.violation("1d-implied-threshold-does-not-invert", f"implied_cds_threshold(cds_spread({a})) = {a_back!r}", wit)
        except ValueError:
            R.skip("implied threshold outside the search interval [-10, -h0]")
    if theta > 1e-9:
        _cds_expectation(R, spec["r"], theta, rec_, T, spread * float(rng.uniform(0.5, 1.5)),
                         lambda pv: float(cf.implied_cds_spread(pv, a, rec_, T)), dict(wit, T=T), "1d")
        R.nontrivial_case(case["seed"])
    if case["seed"] % 10 == 0:
        R.sample({"dim": 1, "model": W.model_label(spec), "threshold": a, "theta": theta, "default_rate_of_chain": below})


def _nd(case, R, rng):
    from rpylib.numerical.closedform.cflevycopula import CFLevyCopulaModel

    d = case["dim"]
    want = case.get("copula") or str(rng.choice(["clayton", "clayton", "independent", "dependent"]))
    cm = W.gen_copula_model_spec(rng, dim=d, kind=want.split("-")[0], exp=True)
    if want == "clayton-interior":
        cm["copula"]["eta"] = W.r6(rng.uniform(0.15, 0.85))       # mass in every orthant
    W.limit_variation(rng, cm, allow_infinite=bool(d == 2 and rng.random() < 0.3), y_hi=0.7)
    r_common = max(cm["margins"][0]["r"], 0.005) if rng.random() < 0.8 else 0.0
    for ms in cm["margins"]:
        ms["r"] = r_common
        ms["d"] = 0.0
        if ms["family"] == "MERTON":
            ms["params"]["sigma_j"] = max(ms["params"]["sigma_j"], 0.08)
            ms["params"]["mu_j"] = min(ms["params"]["mu_j"], 0.05)
        if ms["family"] == "HEM":
            ms["params"]["eta1"] = max(ms["params"]["eta1"], 1.5)
    model = W.build_copula_model(cm)
    g = G.gen_grid_spec(rng, "credit" if case["sym"] else "credit_asym", d)
    try:
        grid = G.build_grid(g, model)
    except (G.OutsideDomain, ValueError) as exc:
        R.skip("outside-domain: " + type(exc).__name__)
        return
    levels = g["_levels"]
    rec_, t, T = float(rng.uniform(0, 0.9)), float(rng.uniform(0.1, 10)), float(rng.uniform(0.5, 10))
    if case["seed"] % 4 == 0:
        rec_ = 0.0
        R.hit("zero_recovery_cases")
    wit = {"model": cm, "grid": g, "levels": levels, "recovery": rec_, "t": t}
    # another multi-name model priced at the very same thresholds earlier in the same process (closed forms of different models must not
    # share anything)
    try:
        cm_other = W.gen_copula_model_spec(np.random.default_rng(case["seed"] + 3), dim=d, kind="clayton", exp=True)
        W.limit_variation(np.random.default_rng(case["seed"] + 4), cm_other, allow_infinite=False, y_hi=0.7)
        for ms in cm_other["margins"]:
            ms["r"], ms["d"] = r_common, 0.0
            if ms["family"] == "HEM":
                ms["params"]["eta1"] = max(ms["params"]["eta1"], 1.5)
        float(CFLevyCopulaModel(W.build_copula_model(cm_other))._theta(list(levels)))
        R.hit("other_model_priced_at_the_same_thresholds_before")
    except Exception:  # noqa: BLE001  (the other model is not the subject)
        pass
    label = W.copula_label(cm)
    R.hit("threshold_on_cell_boundary")
    for k in range(d):
        ax = np.asarray(grid.axes[k], dtype=float)
        if not (ax[1] < levels[k] < ax[2]) or abs(0.5 * (ax[1] + ax[2]) - levels[k]) > 1e-15 * abs(levels[k]) + 1e-18:
            R.violation("credit-threshold-not-on-cell-boundary", f"axis {k}: states {ax[1]!r}, {ax[2]!r}, threshold {levels[k]!r}", wit)
    proc, _ = C.build_chain(model, grid, "INVERSION", True)
    lam = float(proc.intensity_of_jumps)
    f = proc.sampling.probability_to_jump_to_state
    origin = list(grid.origin_coordinate)
    sizes = [len(a) for a in grid.axes]
    default_rate = 0.0
    for s in itertools.product(*[range(n) for n in sizes]):
        if list(s) == origin:
            continue
        if any(float(grid.axes[k][s[k]]) < levels[k] for k in range(d)):
            default_rate += float(f(tuple(si - oi for si, oi in zip(s, origin)))) * lam
    # simulated paths of this credit chain: the first-to-default time handed to the CDS payoff is the first jump time at which some name
    # jumps below its threshold (i.e. the first visit of a default state)
    try:
        from rpylib.product.product import Product
        from rpylib.product.underlying import NthDefaultTimes
        from rpylib.product.payoff import PayoffOnTheFly, PayoffDates

        pay = PayoffOnTheFly(lambda t_: t_)
        pay.payoff_dates_type = PayoffDates.STOCHASTIC
        prod_ = Product(payoff_underlying=NthDefaultTimes(list(levels), 1), payoff=pay, maturity=float(T))
        prod_.update(proc.process_representation)
        np.random.seed(case["seed"] % (2**31))
        proc.initialisation(prod_)
        proc.pre_computation(8, prod_)
        for _ in range(8):
            path = proc.simulate_one_path()
            times = np.asarray(path.jump_times, dtype=float)
            jp = np.asarray(path.jump_path, dtype=float).reshape(d, -1)
            full = proc.deterministic_path(times) + path.value()
            got_tau = float(np.asarray(prod_.underlying_value(times, full, path.value_jump())).reshape(-1)[0])
            inc = np.diff(jp, axis=1)
            hits = [int(np.where(inc[k] < levels[k])[0][0]) + 1 for k in range(d) if np.any(inc[k] < levels[k])]
            want_tau = float(times[min(hits)]) if hits else math.inf
            R.hit("first_to_default_times_on_simulated_paths")
            if got_tau != want_tau:
                R.violation("first-to-default-time-not-first-visit-of-a-default-state", f"{label}: simulated credit-chain path with {times.size - 2} jumps: "
                            f"first-to-default time {got_tau!r}, first jump below a threshold at {want_tau!r}", wit)
                break
    except Exception as exc:  # noqa: BLE001
        R.violation("credit-chain-simulation-raises", f"{label}: {type(exc).__name__}: {exc}", wit)
    # the same rate realised by the other sampling method offered for copula chains (its law is measured black-box)
    rate_bsta = None
    if math.prod(sizes) <= 400:
        from .. import piecewise as PW, samplers as S_

        proc2, _ = C.build_chain(model, grid, "BINARYSEARCHTREEADAPTED", True)
        ps = float(proc2.sampling.uniform.high)
        f1 = S_.single_u_function("BINARYSEARCHTREEADAPTED", proc2.sampling)

        def f_safe(u):
            try:
                return f1(u * ps)
            except Exception as exc:  # noqa: BLE001  (a raise on a sliver of uniforms is C02's subject)
                return ("raises", type(exc).__name__)

        M = PW.measure(f_safe, PW.standard_probes(math.prod(sizes), None, factor=12))
        rate_bsta = 0.0
        for inc, length in M.lengths().items():
            if inc and inc[0] == "raises":
                continue
            st_ = [i + oi for i, oi in zip(inc, origin)]
            if all(0 <= st_[k] < sizes[k] for k in range(d)) and any(float(grid.axes[k][st_[k]]) < levels[k] for k in range(d)):
                rate_bsta += length * float(proc2.intensity_of_jumps)
        R.hit("default_rate_of_the_adapted_tree_sampler")
    oracle = C.CopulaMassOracle(cm, model.copula, model.models, [(-math.inf, math.inf)] * d)
    trunc = [tuple(float(v) for v in tr) for tr in grid.truncations]

    def incl_excl(lo_bounds, hi_bounds):
        """mass of the union over k of {x_k < a_k} inside the box prod [lo_k, hi_k] by inclusion-exclusion of half-spaces"""
        tot = 0.0
        for r in range(1, d + 1):
            for sub in itertools.combinations(range(d), r):
                a_ = [lo_bounds[k] for k in range(d)]
                b_ = [levels[k] if k in sub else hi_bounds[k] for k in range(d)]
                tot += (-1) ** (r + 1) * oracle.mass(a_, b_)
        return tot

    theta_box = incl_excl([tr[0] for tr in trunc], [tr[1] for tr in trunc])
    R.hit("chain_vs_region_mass_nd")
    tol = 1e-7 * lam + 100 * oracle.max_err
    if not (abs(default_rate - theta_box) <= tol):
        R.violation(f"nd-default-rate-vs-region-mass-{'sym' if case['sym'] else 'asym'}-{d}d", f"{label}: total rate of the chain states with a coordinate "
                    f"below its threshold = {default_rate!r}, Levy mass of the default region inside the box (inclusion-exclusion) = {theta_box!r}", wit)
    if rate_bsta is not None and not (abs(rate_bsta - theta_box) <= tol + 1e-9 * lam):
        R.violation(f"nd-default-rate-vs-region-mass-adapted-tree-{d}d", f"{label}: total rate of the default states realised by the BINARYSEARCHTREEADAPTED "
                    f"sampler (measured law) = {rate_bsta!r}, Levy mass of the default region inside the box = {theta_box!r} (INVERSION: {default_rate!r})", wit)
    cf = CFLevyCopulaModel(model)
    theta = float(cf._theta(levels))
    theta_ref = incl_excl([-math.inf] * d, [math.inf] * d)
    R.hit("closed_form_vs_inclusion_exclusion")
    if not (abs(theta - theta_ref) <= 1e-8 * (1 + theta_ref) + 100 * oracle.max_err):
        R.violation(f"nd-theta-vs-inclusion-exclusion-{d}d", f"{label}: closed-form theta = {theta!r}, inclusion-exclusion of the half-space masses "
                    f"= {theta_ref!r}", wit)
    outside = sum(abs(oracle.U(k, trunc[k][1])) + abs(oracle.U(k, trunc[k][0])) for k in range(d))
    if not (abs(default_rate - theta) <= outside + tol):
        R.violation(f"nd-default-rate-vs-closed-form-{d}d", f"{label}: chain default rate {default_rate!r} vs closed form {theta!r}: gap larger than "
                    f"the mass outside the box ({outside!r})", wit)
    R.hit("monotonicity_checks")
    for k in range(d):
        l2 = list(levels)
        l2[k] = levels[k] * 0.9
        if float(cf._theta(l2)) < theta - 1e-12 * (1 + theta):
            R.violation("nd-theta-not-increasing", f"{label}: raising threshold {k} decreases theta", wit)
    # ... down to thresholds so deep that a name's own default intensity is 1e-8 .. 1e-14: lowering one threshold (the others fixed) can
    # only shrink the default region, and the first-to-default intensity stays at least the largest single-name intensity
    for k in range(d):
        prev_t = theta
        for fac in (1.5, 2.2, 3.2, 4.6, 6.5, 9.0, 12.0):
            l3 = list(levels)
            l3[k] = levels[k] * fac
            try:
                th3 = float(cf._theta(l3))
            except Exception as exc:  # noqa: BLE001
                R.violation("nd-theta-raises-deep-threshold", f"{label}: _theta({l3}) raises {type(exc).__name__}: {exc}", wit)
                break
            R.hit("deep_threshold_monotonicity_checks")
            if not (th3 <= prev_t * (1 + 1e-10) + 1e-15):
                R.violation("nd-theta-not-increasing-deep-threshold", f"{label}: lowering threshold {k} from {levels[k] * fac / 1.4:.4g} to {l3[k]:.4g} raises the first-to-default "
                            f"intensity from {prev_t!r} to {th3!r}", wit)
                break
            prev_t = th3
    # ... and for two names linked by a Clayton copula, all thresholds deep: the intensity against the formula written here (tail integrals by
    # quadrature, Clayton mass of the joint default quadrant eta (|U_1|^-theta + |U_2|^-theta)^(-1/theta))
    if d == 2 and cm["copula"]["kind"] == "clayton":
        th_c, eta_c = float(cm["copula"]["theta"]), float(cm["copula"]["eta"])
        for fac in (1.0, 2.0, 3.5, 6.0, 10.0):
            lv = [levels[0] * fac, levels[1] * fac]
            u1, u2 = abs(oracle.U(0, lv[0])), abs(oracle.U(1, lv[1]))
            if not (u1 > 1e-300 and u2 > 1e-300):
                break
            with np.errstate(all="ignore"):
                joint = eta_c * float((u1 ** (-th_c) + u2 ** (-th_c)) ** (-1.0 / th_c)) if (th_c * max(-math.log(u1), -math.log(u2)) < 650) else eta_c * min(u1, u2)
            want_t = u1 + u2 - joint
            try:
                got_t = float(cf._theta(lv))
            except Exception as exc:  # noqa: BLE001
                R.violation("nd-theta-raises-deep-threshold", f"{label}: _theta({lv}) raises {type(exc).__name__}: {exc}", wit)
                break
            R.hit("deep_threshold_clayton_checks")
            # (closed-form tail masses of compound-Poisson margins: absolute rounding ~1e-16 x the total intensity of the margin)
            floor_t = 4e-16 * sum(float(ms["params"]["intensity"]) for ms in cm["margins"] if ms["family"] in ("HEM", "MERTON"))
            if not (abs(got_t - want_t) <= 1e-7 * want_t + 100 * oracle.max_err + 1e-18 + floor_t):
                R.violation("nd-theta-vs-clayton-formula-deep-thresholds" if fac > 1 else "nd-theta-vs-clayton-formula", f"{label}: thresholds {lv} (single-name intensities "
                            f"{u1!r}, {u2!r}): closed-form first-to-default intensity {got_t!r}, |U_1| + |U_2| - eta (|U_1|^-theta + |U_2|^-theta)^(-1/theta) = {want_t!r}", wit)
                break
    _relations(R, theta, float(cf.survival_probability(levels, t)), float(cf.first_to_default_par_spread(levels, rec_)), wit, "nd")
    if theta > 1e-9:
        spread = (1 - rec_) * theta * float(rng.uniform(0.5, 1.5))
        _cds_expectation(R, cm["margins"][0]["r"], theta, rec_, T, spread,
                         lambda pv: float(cf.implied_cds_spread(pv, levels, rec_, T)), dict(wit, T=T), "nd")
        R.nontrivial_case(case["seed"])
    if case["seed"] % 10 == 0:
        R.sample({"dim": d, "copula": label, "levels": levels, "theta": theta, "default_rate_of_chain": default_rate, "mass_outside_box": outside})
