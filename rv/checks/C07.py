"""C07 -- standard Monte-Carlo price, error and control-variate adjustment are textbook.

Monitor: the real standard Engine / MCStatistics / ControlVariates / MCPath driven by a scripted process that
returns a known list of paths (unique terminal values, every sample logged); oracle: numpy on the scripted values.
"""
from __future__ import annotations

import math

import numpy as np

from .. import bootstrap
from ..workloads import r6 as W_r6
from ..scripted_process import ScriptedProcess

ID = "C07"
RULE = ("case = (N paths with unique scripted terminal values, product in {Forward, Call/Put scalar strike, Call vector strikes, "
        "on-the-fly}, notional, rate, 0..3 control variates with scalar or vector prices, spot statistics on/off); checked: "
        "price = df * mean(notional * payoff) over exactly the N scripted paths (each once), mc_stddev = std(ddof=1)/sqrt(N) per "
        "component, control-variate price = mean(Y - b*(X - price_X)) with b* the sample regression coefficient, = raw mean when "
        "price_X is the sample mean of X, adjusted variance <= raw variance; non-trivial = N >= 3 paths with non-constant payoff; "
        "distinct = distinct seed")
ASSUMPTIONS = ["controls whose sample variance is below 1e-9 x their mean square, or collinear in the sample (condition number of their covariance matrix above 1e10), are "
               "not judged (the code's own degenerate-control guard, 1e-12 on the variance, is far below); uncorrelated controls are judged",
               "the scripted process stands for any Process; runs with 2..4 worker processes draw the terminal values in the workers and log them "
               "to an O_APPEND file, the multiset of logged values is the reference (which worker simulates which path is not prescribed)"]
REQUIRED_COUNTERS = ["price_checks", "stddev_checks", "each_path_once_checks", "control_variate_checks", "cv_mean_invariance",
                     "cv_variance_checks", "vector_payoff_cases", "spot_statistics_cases", "control_variates_object_reused",
                     "concentrated_sample_cases", "symmetric_path_sets", "same_engine_repricings", "discount_factor_above_one_cases", "zero_notional_cases", "controls_on_another_underlying", "log_representation_cases", "worker_process_runs", "worker_runs_with_two_or_more_simulating_processes"]
MIN_NONTRIVIAL = {"quick": 100, "thorough": 1500}
THOROUGH_ROUNDS = 20      # the thorough tier runs the generators this many times (different seeds)


def gen_cases(tier, seed):
    rng = np.random.default_rng(seed + 700)
    n = 160 if tier == "quick" else 2500
    cases = []
    for i in range(n):
        cases.append({"seed": int(rng.integers(2**31)), "N": int(rng.choice([2, 3, 5, 17, 64, 200, 513])),
                      "product": ["forward", "call", "put", "call-vector", "onthefly", "barrier"][i % 6], "ncv": int(i % 4),
                      "cv_prices": ["scalar", "vector"][(i // 4) % 2], "spot_stats": bool((i // 8) % 2),
                      "cv_notional": float([1.0, 1.0, 1e-2, 1.0, 250.0, 1e-4, 1.0, 2e-5, 1.0, 1e-7, 1e-9][(i // 4) % 11])})
        if i % 5 == 3 or i % 7 == 2:
            cases[-1]["log_rep"] = True           # the process simulates log S (the engine switches the product and the controls to it)
        if i % 12 == 0:
            # samples concentrated around a large value (relative spread 1e-6 .. 1e-8): the error estimate must not lose them to cancellation
            cases[-1]["concentration"] = float(rng.choice([1e-6, 1e-8]))
    # path sets that are symmetric around a centre (antithetic pairs): a control that is odd around the centre and one that is even are
    # exactly uncorrelated in the sample; both still enter the regression
    for i in range(6 if tier == "quick" else 40):
        cases.append({"seed": int(rng.integers(2**31)), "N": int(rng.choice([6, 10, 40, 128])), "product": ["call", "put", "onthefly"][i % 3], "ncv": 2,
                      "cv_prices": ["scalar", "vector"][i % 2], "spot_stats": False, "cv_notional": 1.0, "symmetric": True})
    # the paths simulated by a pool of worker processes: path counts that are and are not multiples of the number of workers
    for i in range(8 if tier == "quick" else 24):
        cases.append({"kind": "workers", "seed": int(rng.integers(2**31)), "N": int(rng.choice([3, 5, 7, 16, 17, 33, 64, 101])), "workers": int(rng.choice([2, 3, 4])),
                      "product": ["forward", "call", "put"][i % 3]})
    return cases


class LoggedWorkerProcess:
    """scripted process for runs with worker processes: the terminal value is drawn in the process that simulates the path and appended to a
    file (one O_APPEND write per path), the record -- independent of the engine -- of what was simulated"""

    def __init__(self, log_path, rate):
        from rpylib.process.process import ProcessRepresentation
        from ..scripted_process import ScriptedModel

        self.model = ScriptedModel(1, rate)
        self.process_representation = ProcessRepresentation.IDENDITY
        self.log_path = log_path
        self.maturity = None

    def dimension(self):
        return 1

    def initialisation(self, product, max_step_epsilon=None):
        self.maturity = product.maturity

    def pre_computation(self, mc_paths, product):
        pass

    def deterministic_path(self, times):
        return 0.0 * np.asarray(times, dtype=float)

    def df(self, t):
        return self.model.df(t)

    def one_simulation_cost(self, product):
        return 1.0

    def reset_one_simulation_cost(self):
        pass

    def simulate_one_path(self):
        import os
        from rpylib.montecarlo.path import StochasticJumpPath

        v = 60.0 + 80.0 * int.from_bytes(os.urandom(6), "big") / 2.0**48
        fd = os.open(self.log_path, os.O_WRONLY | os.O_APPEND | os.O_CREAT)
        try:
            os.write(fd, (float(v).hex() + " " + str(os.getpid()) + "\n").encode())
        finally:
            os.close(fd)
        return StochasticJumpPath(np.array([0.0, self.maturity]), np.array([0.0, v]), np.array([0.0, 0.0]))


def _run_workers(case, R):
    import os
    import tempfile
    from rpylib.montecarlo.configuration import ConfigurationStandard
    from rpylib.montecarlo.standard.engine import Engine
    from rpylib.product.product import Product
    from rpylib.product.underlying import Spot

    rng = np.random.default_rng(case["seed"])
    N, workers = case["N"], case["workers"]
    rate, T = float(rng.uniform(0, 0.08)), float(rng.uniform(0.2, 3.0))
    notional = float(rng.choice([1.0, 2.5, -3.0]))
    k = float(rng.uniform(85, 115))
    pay, fun = _payoff(case["product"], k, None)
    product = Product(payoff_underlying=Spot(), payoff=pay, maturity=T, notional=notional)
    df = math.exp(-rate * T)
    wit = {"case": case, "strike": k, "notional": notional, "rate": rate, "T": T}
    fd, log_path = tempfile.mkstemp(prefix="c07-paths-", dir=os.path.join(bootstrap.VERIF, ".scratch") if os.path.isdir(os.path.join(bootstrap.VERIF, ".scratch")) else None)
    os.close(fd)
    try:
        proc = LoggedWorkerProcess(log_path, rate)
        conf = ConfigurationStandard(mc_paths=N, seed=None, activate_spot_statistics=True, nb_of_processes=workers)
        try:
            st = Engine(conf, proc).price(product)
        except Exception as exc:  # noqa: BLE001
            R.violation("engine-raises-with-worker-processes", f"standard Engine.price with {workers} processes raises {type(exc).__name__}: {exc}", wit)
            return
        with open(log_path) as fh:
            lines = [ln.split() for ln in fh.read().splitlines() if ln.strip()]
    finally:
        try:
            os.unlink(log_path)
        except OSError:
            pass
    R.hit("worker_process_runs")
    sim = np.array([float.fromhex(a) for a, _ in lines], dtype=float)
    pids = {b for _, b in lines}
    R.hit("worker_paths_logged", len(sim))
    if len(pids) >= 2:
        R.hit("worker_runs_with_two_or_more_simulating_processes")
    divis = "multiple-of-the-workers" if N % workers == 0 else "not-a-multiple-of-the-workers"
    if len(sim) != N:
        R.violation(f"worker-processes-simulate-another-number-of-paths-{divis}", f"{N} paths configured, {workers} processes: {len(sim)} paths were simulated", wit)
    stored = np.asarray(st._payoff_statistics.stats, dtype=float).reshape(-1)
    spots = np.asarray(st._spot_underlying_statistics.stats, dtype=float).reshape(-1)
    Y = df * notional * np.asarray(fun(sim), dtype=float)
    if len(stored) != N or len(sim) != len(spots) or not np.allclose(np.sort(spots), np.sort(sim), rtol=1e-13, atol=0):
        R.violation(f"worker-paths-not-each-used-once-{divis}", f"{len(sim)} simulated terminal values, {len(spots)} rows of spot statistics for {N} configured paths: "
                    "the stored spots are not the simulated ones, each once", wit)
        return
    if not np.allclose(np.sort(stored), np.sort(Y), rtol=1e-12, atol=1e-12):
        R.violation("worker-stored-payoff-not-discounted-notional-payoff", "the stored payoffs are not df*notional*payoff of the simulated paths (as multisets)", wit)
        return
    R.hit("price_checks")
    raw = float(np.atleast_1d(np.asarray(st.price(no_control_variates=True), dtype=float))[0])
    if not (abs(raw - Y.mean()) <= 1e-12 * (abs(Y.mean()) + float(np.max(np.abs(Y))))):
        R.violation(f"raw-price-not-mean-worker-processes-{divis}", f"price = {raw!r}, df*mean(notional*payoff) over the {len(sim)} simulated paths = {Y.mean()!r}", wit)
    R.hit("stddev_checks")
    err = float(np.atleast_1d(np.asarray(st.mc_stddev(no_control_variates=True), dtype=float))[0])
    want = float(Y.std(ddof=1) / math.sqrt(N))
    if not (abs(err - want) <= 1e-10 * want + 1e-13 * float(np.max(np.abs(Y)))):
        R.violation(f"mc-stddev-worker-processes-{divis}", f"mc_stddev = {err!r}, std(ddof=1)/sqrt(N) over the simulated paths = {want!r}", wit)
    if np.std(Y) > 0:
        R.nontrivial_case("workers", case["seed"])


def _payoff(kind, k, ks):
    from rpylib.product import payoff as P

    if kind == "forward":
        return P.Forward(strike=k), lambda s: s - k
    if kind == "call":
        return P.Vanilla(strike=k, payoff_type=P.PayoffType.CALL), lambda s: np.maximum(s - k, 0.0)
    if kind == "put":
        return P.Vanilla(strike=k, payoff_type=P.PayoffType.PUT), lambda s: np.maximum(k - s, 0.0)
    if kind == "call-vector":
        return P.Vanilla(strike=np.array(ks), payoff_type=P.PayoffType.CALL), lambda s: np.maximum(s[:, None] - np.array(ks)[None, :], 0.0)
    if kind == "barrier":
        # up-and-out call: the scripted path has two points (0 and the terminal value), the event is "terminal value above the barrier"
        B = k * 1.15
        return (P.Barrier(strike=k, payoff_type=P.PayoffType.CALL, barrier_type=P.BarrierType.UP_AND_OUT, barrier=B),
                lambda s: np.where(s > B, 0.0, np.maximum(s - k, 0.0)))
    return P.PayoffOnTheFly(lambda x: 0.3 * x * x + 1.0), lambda s: 0.3 * s * s + 1.0


def run_case(case, R):
    import logging

    logging.disable(logging.CRITICAL)
    from rpylib.montecarlo.configuration import ConfigurationStandard
    from rpylib.montecarlo.standard.engine import Engine
    from rpylib.product.product import Product, ControlVariates
    from rpylib.product.underlying import Spot
    from rpylib.product import payoff as P

    R.evaluation()
    if case.get("kind") == "workers":
        _run_workers(case, R)
        return
    rng = np.random.default_rng(case["seed"])
    N = case["N"]
    rate, T = float(rng.uniform(-0.04, 0.08)), float(rng.uniform(0.2, 3.0))          # (negative rates: discount factors above one)
    notional = float(rng.choice([1.0, 2.5, -3.0, 1e3]))
    if case["seed"] % 11 == 0:
        notional = 0.0                                                                # (a notional like any other)
        R.hit("zero_notional_cases")
    if rate < 0:
        R.hit("discount_factor_above_one_cases")
    # unique terminal values: i-th path -> base + i * step + tiny id
    s = np.sort(rng.lognormal(0.0, 0.4, size=N)) * 100.0
    s = s + np.arange(N) * 1e-6
    conc = float(case.get("concentration", 0.0))
    if conc:
        s = float(rng.choice([1e2, 1e4])) * (1.0 + conc * (np.sort(rng.normal(size=N)) + 1e-3 * np.arange(N)))
        R.hit("concentrated_sample_cases")
    sym = bool(case.get("symmetric"))
    if sym:
        centre = float(rng.choice([50.0, 100.0, 128.0]))
        dev = np.sort(rng.uniform(0.5, 30.0, size=N // 2)) + np.arange(N // 2) * 2.0**-10
        dev = np.round(dev * 1024.0) / 1024.0                     # dyadic deviations: centre + d and centre - d are exact
        s = np.concatenate([centre + dev, centre - dev])
        R.hit("symmetric_path_sets")
    order = rng.permutation(N)
    s = s[order]
    k = float(np.median(s) * rng.uniform(0.9, 1.1))
    if sym:
        k = W_r6(centre * rng.uniform(0.85, 1.0))
    ks = [k * 0.8, k, k * 1.25]
    pay, fun = _payoff(case["product"], k, ks)
    dim = 3 if case["product"] == "call-vector" else 1
    product = Product(payoff_underlying=Spot(), payoff=pay, maturity=T, notional=notional)
    df = math.exp(-rate * T)
    Y = df * notional * np.asarray(fun(s), dtype=float)
    Y2 = Y.reshape(N, dim)
    wit = {"case": case, "first_values": s[:5].tolist(), "strike": k, "notional": notional, "rate": rate, "T": T}
    # control variates
    cvs, cv_funs = [], []
    cv_notional = float(case.get("cv_notional", 1.0))     # controls in small cash units (rate-like payoffs) as well as large ones
    for j in range(case["ncv"]):
        kj = float(k * (0.85 + 0.1 * j))
        und_j = Spot()
        if sym:
            pj, fj = [(P.Forward(strike=centre), lambda x: x - centre), (P.PayoffOnTheFly(lambda x: (x - centre) ** 2), lambda x: (x - centre) ** 2)][j]
        elif dim == 1 and j == 0 and case["seed"] % 2 == 0:
            # a control written on another underlying than the product's (the logarithm of the spot): nothing can be implied from the product
            from rpylib.product.underlying import LogSpot

            und_j = LogSpot()
            pj, fj = P.Forward(strike=math.log(kj)), (lambda x, kj=kj: np.log(x) - math.log(kj))
            R.hit("controls_on_another_underlying")
        elif dim == 1:
            pj, fj = _payoff(["forward", "call", "put"][j % 3], kj, ks)
        else:
            pj, fj = _payoff("call-vector", kj, [kj * 0.8, kj, kj * 1.25])
        cvs.append(Product(payoff_underlying=und_j, payoff=pj, maturity=T, notional=cv_notional))
        cv_funs.append(lambda x, fj=fj: cv_notional * np.asarray(fj(x), dtype=float))
    X = None
    cv_obj = None
    prices = None
    if cvs:
        X = np.stack([df * np.asarray(f(s), dtype=float).reshape(N, dim) for f in cv_funs], axis=1)   # (N, ncv, dim)
        true_prices = X.mean(axis=0) + rng.normal(0, 0.05, size=X.shape[1:]) * (np.abs(X.mean(axis=0)) + 0.1 * cv_notional)
        if case["cv_prices"] == "scalar" and dim == 1:
            prices = [float(true_prices[j, 0]) for j in range(len(cvs))]
        else:
            prices = [true_prices[j].copy() for j in range(len(cvs))]
        cv_obj = ControlVariates(products=cvs, prices=prices)

    def run(cv, spot_stats):
        proc = ScriptedProcess(list(s), dim=1, rate=rate, log_representation=bool(case.get("log_rep")))
        conf = ConfigurationStandard(mc_paths=N, seed=12345, control_variates=cv, activate_spot_statistics=spot_stats, nb_of_processes=1)
        eng = Engine(conf, proc)
        st = eng.price(product)
        return st, proc

    try:
        st, proc = run(cv_obj, case["spot_stats"])
    except Exception as exc:  # noqa: BLE001
        R.violation(f"engine-raises-{case['product']}-cv{case['ncv']}", f"standard Engine.price raises {type(exc).__name__}: {exc}", wit)
        return
    if dim > 1:
        R.hit("vector_payoff_cases")
    if case.get("log_rep"):
        R.hit("log_representation_cases")
    if case["spot_stats"]:
        R.hit("spot_statistics_cases")
    # ---- every scripted path used exactly once -----------------------------------------------------------------------------
    R.hit("each_path_once_checks")
    used = [e[1] for e in proc.log.events if e[0] == "sample"]
    stored = np.asarray(st._payoff_statistics.stats, dtype=float).reshape(N, dim)
    if sorted(used) != list(range(N)):
        R.violation("paths-not-simulated-once", f"{len(used)} simulate_one_path calls for {N} configured paths (distinct {len(set(used))})", wit)
    # (in the log representation the underlying is exp(log s): one rounding on the size of s, not of the payoff)
    atol_rep = 4e-15 * abs(notional) * df * float(np.max(np.abs(s))) * (30.0 if case["product"] == "onthefly" else 1.0) if case.get("log_rep") else 0.0
    if not np.allclose(stored, Y2, rtol=1e-12, atol=atol_rep):
        bad = int(np.argmax(np.max(np.abs(stored - Y2), axis=1)))
        R.violation("stored-payoff-not-discounted-notional-payoff", f"row {bad} of the payoff statistics is {stored[bad].tolist()}, df*notional*payoff of "
                    f"the {bad}-th scripted path is {Y2[bad].tolist()}", wit)
    if case["spot_stats"]:
        sp = np.asarray(st._spot_underlying_statistics.stats, dtype=float).reshape(N)
        if not np.allclose(sp, s, rtol=1e-12):
            R.violation("spot-statistics-not-terminal-values", "spot statistics differ from the scripted terminal values", wit)
    # ---- raw price and error ---------------------------------------------------------------------------------------------------
    R.hit("price_checks")
    raw = np.atleast_1d(np.asarray(st.price(no_control_variates=True), dtype=float))
    want = Y2.mean(axis=0) if not case.get("log_rep") else stored.mean(axis=0)      # (log representation: the rows the engine stored, compared with the scripted payoffs above)
    ymax = float(np.max(np.abs(Y2))) if Y2.size else 0.0       # the mean of samples of both signs cancels: rounding is on the scale of the samples
    if not np.allclose(raw, want, rtol=1e-12, atol=1e-14 + 4e-15 * N * ymax):
        R.violation("raw-price-not-mean", f"price(no_control_variates=True) = {raw.tolist()}, df*mean(notional*payoff) = {want.tolist()}", wit)
    R.hit("stddev_checks")
    err = np.atleast_1d(np.asarray(st.mc_stddev(no_control_variates=True), dtype=float))
    # (the error of the rows the engine stored -- compared with the scripted payoffs to 1e-12 above: on concentrated samples the rounding of
    #  the payoff itself is not small against their spread)
    want_err = stored.std(axis=0, ddof=1) / math.sqrt(N)
    # (any two-pass or updating algorithm is good to eps / relative spread; the one-pass moment formula only to eps / relative spread^2)
    if not np.allclose(err, want_err, rtol=max(1e-10, 2.3e-14 / conc) if conc else 1e-10, atol=1e-14 + 4e-15 * N * ymax * (0.0 if conc else 1.0)):
        dimk = ("vector-payoff" if dim > 1 else "scalar-payoff") + ("-concentrated-samples" if conc else "")
        R.violation(f"mc-stddev-{dimk}", f"mc_stddev = {err.tolist()} for N = {N}, payoff dimension {dim}; std(ddof=1)/sqrt(N) = {want_err.tolist()}", wit)
    # ---- control variates -----------------------------------------------------------------------------------------------------------
    if cvs:
        pr = np.atleast_1d(np.asarray(st.price(), dtype=float))
        adj = np.asarray(st._payoff_statistics_with_cv.stats, dtype=float).reshape(N, dim)
        for c in range(dim):
            Xc = X[:, :, c]
            Yc = Y2[:, c]
            S = np.cov(Xc.T, Yc, bias=True)
            Sx = np.atleast_2d(S[:-1, :-1])
            Sxy = S[:-1, -1]
            # degenerate = a control without sample variance, or controls that are collinear in the sample (uncorrelated controls are not)
            # (relative to the size of the control: a control in tiny cash units is a control like any other)
            cond = float(np.linalg.cond(Sx)) if np.all(np.diag(Sx) > 1e-9 * np.mean(Xc**2, axis=0)) else math.inf
            if cond > 1e10 or N < len(cvs) + 2:
                R.skip("degenerate-controls")
                continue
            b = np.linalg.solve(Sx, Sxy)
            pX = np.array([np.atleast_1d(p)[c] if np.ndim(p) else p for p in prices], dtype=float)
            series = Yc - (Xc - pX[None, :]) @ b
            R.hit("control_variate_checks")
            # rounding of the regression: eps * cond(Sigma_x) on the size of the adjustment b * (X - price)
            scale = abs(series.mean()) + np.std(Yc) + 1e-12 + 1e-7 * cond * float(np.sum(np.abs(b) * np.max(np.abs(Xc - pX[None, :]), axis=0)))
            if not (abs(pr[c] - series.mean()) <= 1e-8 * scale):
                kind = f"{case['cv_prices']}-prices-{len(cvs)}-controls" + ("-uncorrelated-controls" if np.min(np.abs(Sx / np.sqrt(np.outer(np.diag(Sx), np.diag(Sx))))) < 1e-10 else "") + ("-controls-in-tiny-units" if cv_notional < 1e-5 else "")
                R.violation(f"cv-price-not-regression-estimator-{kind}", f"component {c}: price with {len(cvs)} control(s) = {pr[c]!r}, "
                            f"mean(Y - b*(X - price_X)) with the sample regression coefficient b* = {b.tolist()} is {series.mean()!r} "
                            f"(raw mean {Yc.mean()!r}, control prices {pX.tolist()})", wit)
            R.hit("cv_variance_checks")
            if np.var(adj[:, c]) > np.var(Yc) * (1 + 1e-10) + 1e-18:
                R.violation("cv-variance-larger-than-raw", f"component {c}: variance of the adjusted series {np.var(adj[:, c])!r} > raw {np.var(Yc)!r}", wit)
        # second run: control prices = sample means of the controls -> the price must be the raw mean
        well_conditioned = all(np.linalg.cond(np.atleast_2d(np.cov(X[:, :, c].T, bias=True))) < 1e10 and
                               np.all(np.diag(np.atleast_2d(np.cov(X[:, :, c].T, bias=True))) > 1e-9 * np.mean(X[:, :, c] ** 2, axis=0)) for c in range(dim))
        if not well_conditioned:
            R.skip("degenerate-controls")
            if N >= 3 and np.std(Y2[:, 0]) > 0:
                R.nontrivial_case(case["seed"])
            return
        means = X.mean(axis=0)
        if case["cv_prices"] == "scalar" and dim == 1:
            p2 = [float(means[j, 0]) for j in range(len(cvs))]
        else:
            p2 = [means[j].copy() for j in range(len(cvs))]
        try:
            st2, _ = run(ControlVariates(products=cvs, prices=p2), False)
            pr2 = np.atleast_1d(np.asarray(st2.price(), dtype=float))
            R.hit("cv_mean_invariance")
            if not np.allclose(pr2, want, rtol=1e-9, atol=1e-12 * (1 + np.max(np.abs(want)))):
                R.violation(f"cv-price-differs-from-raw-mean-when-controls-are-centred-{case['cv_prices']}-prices-{len(cvs)}-controls",
                            f"controls priced at their own sample means: price {pr2.tolist()} but raw mean {want.tolist()}", wit)
        except Exception as exc:  # noqa: BLE001
            R.violation("engine-raises-second-run", f"{type(exc).__name__}: {exc}", wit)
    # ---- the same ControlVariates object used for a second pricing of ANOTHER kind of product (log-spot underlying): same result as with a
    #      ControlVariates object that has not priced anything before
    if cvs and dim == 1 and case["seed"] % 3 == 0:
        from rpylib.product.underlying import LogSpot

        prod2 = Product(payoff_underlying=LogSpot(), payoff=P.Forward(strike=1.0), maturity=T, notional=notional)

        def run2(cv):
            proc2 = ScriptedProcess(list(s), dim=1, rate=rate)
            conf2 = ConfigurationStandard(mc_paths=N, seed=12345, control_variates=cv, activate_spot_statistics=False, nb_of_processes=1)
            return np.atleast_1d(np.asarray(Engine(conf2, proc2).price(prod2).price(), dtype=float))

        try:
            used = run2(cv_obj)                                                     # cv_obj has priced `product` above
            fresh = run2(ControlVariates(products=cvs, prices=prices))
            R.hit("control_variates_object_reused")
            if not np.allclose(used, fresh, rtol=1e-10, atol=1e-12 * (1 + float(np.max(np.abs(fresh)))), equal_nan=True):
                R.violation("control-variates-object-remembers-the-previous-pricing", f"a ControlVariates object that priced a {case['product']} on the spot gives "
                            f"{used.tolist()} for a forward on the log-spot, a fresh object with the same products and prices gives {fresh.tolist()}", wit)
        except Exception as exc:  # noqa: BLE001
            R.violation("engine-raises-second-product", f"{type(exc).__name__}: {exc}", wit)
    # ---- the same engine object priced again with another number of paths (bump-and-reprice loops): each pricing is the mean over exactly
    #      its own paths
    if case["seed"] % 2 == 0 and not conc and N >= 5:
        sizes = [N, max(2, N // 3), N + 7, max(2, N // 2)]
        extra = np.sort(rng.lognormal(0.0, 0.4, size=sum(sizes))) * 100.0 + np.arange(sum(sizes)) * 1e-6
        extra = extra[rng.permutation(extra.size)]
        proc3 = ScriptedProcess(list(extra), dim=1, rate=rate)
        conf3 = ConfigurationStandard(mc_paths=sizes[0], seed=12345, control_variates=None, activate_spot_statistics=case["spot_stats"], nb_of_processes=1)
        eng3 = Engine(conf3, proc3)
        start = 0
        try:
            for run_no, nk in enumerate(sizes):
                conf3.mc_paths = nk
                st3 = eng3.price(product)
                vals = extra[start:start + nk]
                start += nk
                Yk = (df * notional * np.asarray(fun(vals), dtype=float)).reshape(nk, dim)
                got_p = np.atleast_1d(np.asarray(st3.price(no_control_variates=True), dtype=float))
                got_e = np.atleast_1d(np.asarray(st3.mc_stddev(no_control_variates=True), dtype=float))
                R.hit("same_engine_repricings")
                ymx = float(np.max(np.abs(Yk)))
                if not (np.allclose(got_p, Yk.mean(axis=0), rtol=1e-12, atol=1e-14 + 4e-15 * nk * ymx)
                        and np.allclose(got_e, Yk.std(axis=0, ddof=1) / math.sqrt(nk), rtol=1e-10, atol=1e-14 + 4e-15 * nk * ymx)):
                    rows = int(np.asarray(st3._payoff_statistics.stats).shape[0])
                    R.violation("same-engine-repricing-not-the-mean-over-its-own-paths" + ("-fewer-paths-than-before" if run_no and nk < max(sizes[:run_no]) else ""),
                                f"pricing number {run_no + 1} of one engine object with {nk} configured paths (earlier: {sizes[:run_no]}): price {got_p.tolist()}, "
                                f"error {got_e.tolist()}; mean and std/sqrt(N) over its own {nk} paths: {Yk.mean(axis=0).tolist()}, "
                                f"{(Yk.std(axis=0, ddof=1) / math.sqrt(nk)).tolist()} ({rows} rows in the payoff statistics)", wit)
                    break
        except Exception as exc:  # noqa: BLE001
            R.violation("engine-raises-when-priced-again", f"{type(exc).__name__}: {exc}", wit)
    if N >= 3 and np.std(Y2[:, 0]) > 0:
        R.nontrivial_case(case["seed"])
    if case["seed"] % 40 == 0:
        R.sample({"N": N, "product": case["product"], "controls": case["ncv"], "price": raw.tolist(), "mc_stddev": err.tolist()})
