"""C15 -- simulated paths are running sums on the product dates within the time-step cap.

Monitor: record-only wrappers on the variate sources (jump counts, jump times, jump sizes / sampled states, normals)
around the real simulate_one_path() / simulate_one_path_with_coupling() of the direct, Markov-chain, copula and coupled
simulators in their three modes; oracle: the path recomputed by the harness from the recorded variates.
Also the two build_finer_grid closures called directly on generated arrays.
"""
from __future__ import annotations

import itertools
import math
from unittest import mock

import numpy as np

from .. import chain as C, gridspec as G, workloads as W

ID = "C15"
RULE = ("case = (simulator in {direct Levy process, 1-d chain, copula chain, 1-d coupling, copula coupling}, mode in {fixed dates, "
        "jump times, maximum step}, number of product dates 2..13, scripted jump counts incl. 0 / 1 / bursts, seed); 4 paths per "
        "case; recorded variates -> expected times, running jump sums, running diffusion sums; max step: all dt <= eps, original "
        "points kept, inserted points repeat the previous value, fine/coarse aligned; plus build_finer_grid on random arrays; "
        "non-trivial = path with >= 1 jump; distinct = distinct (simulator, mode, dates, seed)")
ASSUMPTIONS = ["jump counts are scripted (Poisson.sample replaced), everything else is recorded, not replaced",
               "copulas: finite-variation margins; grids of at most 9 points per axis"]
REQUIRED_COUNTERS = ["paths_checked", "fixed_date_paths", "jump_time_paths", "max_step_paths", "multi_date_paths",
                     "finer_grid_direct_calls", "coupled_paths", "paths_without_jump", "coarse_component_checks", "nd_diffusion_running_sums_nonzero_matrix", "finer_grid_gaps_multiple_of_the_cap",
                     "steps_with_brownian_increment_checked", "simulators_that_served_another_maturity_first"]
MIN_NONTRIVIAL = {"quick": 60, "thorough": 800}
THOROUGH_ROUNDS = 20      # the thorough tier runs the generators this many times (different seeds)
SHARD_TIMEOUT = {"quick": 900, "thorough": 7200}
SIMS = ["direct", "chain", "coupling", "copula", "copula-coupling"]
MODES = ["fixed", "jumptimes", "maxstep"]


def gen_cases(tier, seed):
    rng = np.random.default_rng(seed + 1500)
    n = 90 if tier == "quick" else 1500
    cases = []
    for i in range(n):
        sim = SIMS[i % 5] if i % 7 else "direct"
        cases.append({"kind": "sim", "sim": sim, "mode": MODES[(i // 5) % 3], "dates": int(rng.choice([2, 2, 3, 5, 13])),
                      "counts": [int(c) for c in rng.choice([0, 0, 1, 1, 2, 3, 7], size=16)], "seed": int(rng.integers(2**31)),
                      "eps_frac": float(rng.choice([0.07, 0.31, 0.5, 1.0, 2.0, 0.1, 0.2, 0.05]))})
    for i in range(20 if tier == "quick" else 400):
        cases.append({"kind": "finer", "seed": int(rng.integers(2**31)), "dim": int(i % 3), "coupled": bool(i % 2), "exact": bool(i % 4 >= 2)})
    return cases


def _product(mode, dates, T):
    from rpylib.product.product import Product
    from rpylib.product.underlying import Spot
    from rpylib.product.payoff import Forward, PayoffDates
    from rpylib.grid.time import TimeGrid

    class SpotAtDates(Spot):
        def compute_times_grid(self, maturity):
            return TimeGrid(start=0.0, end=maturity, num=dates)

    pay = Forward(strike=0.0)
    if mode != "fixed":
        pay.payoff_dates_type = PayoffDates.STOCHASTIC
    return Product(payoff_underlying=SpotAtDates(), payoff=pay, maturity=T)


class Recorder15:
    """record-only taps + scripted jump counts"""

    def __init__(self, counts):
        self.counts = itertools.cycle(counts)
        self.reset()

    def reset(self):
        self.jump_times = []     # arrays returned by jump_times_from_nb_of_jumps, in call order
        self.normals = []        # arrays returned by numpy.random.normal
        self.samples = []        # (size, list of increments) returned by the sampler
        self.coarse = []         # coarse values returned by the coupling map, in call order
        self.jump_sizes = []     # arrays returned by model.jump_increment
        self.poisson = []


def run_case(case, R):
    R.evaluation()
    if case["kind"] == "finer":
        _finer(case, R)
    else:
        _sim(case, R)


# ------------------------------------------------------------------------------------------------------------------
def _finer(case, R):
    from rpylib.process.levyprocess import SimulationMaximumStep
    from rpylib.process.coupling.helper import create_build_finer_grid_fun

    rng = np.random.default_rng(case["seed"])
    T = float(rng.uniform(0.5, 3))
    n = int(rng.integers(1, 12))
    times = np.sort(rng.uniform(0, T, size=n))
    if len(np.unique(times)) < n:
        return
    eps = float(T * rng.choice([0.05, 0.2, 0.45, 0.9]))
    if case.get("exact"):
        # gaps that are whole multiples of the cap (up to rounding): round maturities, jump times on multiples of the cap or none
        T, eps = [(1.0, 0.2), (0.7, 0.1), (1.0, 0.1), (3.0, 0.3), (1.2, 0.12), (2.0, 0.4), (1.0, 0.05)][int(rng.integers(7))]
        k = int(round(T / eps))
        n = int(rng.integers(0, 3))
        times = np.array(sorted(float(j * eps) for j in rng.choice(np.arange(1, k), size=n, replace=False))) if n else np.zeros(0)
        R.hit("finer_grid_gaps_multiple_of_the_cap")
    d = case["dim"]
    shape = (n,) if d == 0 else (d + 1, n)
    vals = np.cumsum(rng.normal(size=shape), axis=-1)
    R.hit("finer_grid_direct_calls")
    wit = {"case": case, "times": times.tolist(), "eps": eps}
    if case["coupled"]:
        f = create_build_finer_grid_fun(epsilon=eps, maturity=T)
        vals2 = np.cumsum(rng.normal(size=shape), axis=-1)
        t2, a, b = f(None, times.copy(), vals.copy(), vals2.copy())
        outs = [(vals, a), (vals2, b)]
        name = "coupling-helper"
    else:
        f = SimulationMaximumStep.create_build_finer_grid_fun(epsilon=eps, maturity=T)
        t2, a = f(None, times.copy(), vals.copy())
        outs = [(vals, a)]
        name = "levyprocess"
    t2 = np.asarray(t2, dtype=float)
    dts = np.diff(np.concatenate([[0.0], t2, [T]]))          # (the step up to the maturity included)
    if np.any(dts > eps * (1 + 1e-9)) or np.any(dts <= 0):
        R.violation(f"finer-grid-{name}-steps", f"build_finer_grid: steps {dts.tolist()} for eps = {eps}", wit)
        return
    for orig, aug in outs:
        aug = np.asarray(aug, dtype=float)
        if aug.shape[-1] != t2.size:
            R.violation(f"finer-grid-{name}-misaligned", f"{aug.shape} values for {t2.size} times", wit)
            return
        # every original (time, value) pair present; inserted points repeat the previous value (0 before the first jump)
        j = 0
        prev = np.zeros(aug.shape[:-1])
        for i, t in enumerate(t2):
            v = aug[..., i]
            if j < n and abs(t - times[j]) <= 1e-12 * T:
                if not np.allclose(v, orig[..., j], rtol=0, atol=1e-12):
                    R.violation(f"finer-grid-{name}-original-value-changed", f"value at the original time {t} changed", wit)
                    return
                j += 1
            elif not np.allclose(v, prev, rtol=0, atol=1e-12):
                R.violation(f"finer-grid-{name}-inserted-value", f"inserted point at t = {t} carries {np.asarray(v).tolist()}, the preceding value is "
                            f"{np.asarray(prev).tolist()}", wit)
                return
            prev = v
        if j != n:
            R.violation(f"finer-grid-{name}-original-point-lost", f"only {j} of the {n} original times are present", wit)
            return
    R.nontrivial_case("finer", case["seed"])


# ------------------------------------------------------------------------------------------------------------------
def _model_for(sim, rng):
    if sim == "direct":
        fam = str(rng.choice(["HEM", "MERTON", "BS"]))
        spec = W.gen_model_spec(rng, fam, exp=True)
        if fam != "BS":
            spec["params"]["sigma"] = max(spec["params"]["sigma"], 0.1)
        return spec
    if sim in ("chain", "coupling"):
        spec = W.gen_model_spec(rng, str(rng.choice(["HEM", "MERTON", "VG", "CGMY"])), exp=bool(rng.integers(2)))
        return spec
    cm = W.gen_copula_model_spec(rng, dim=2, kind=str(rng.choice(["clayton", "independent"])))
    W.limit_variation(rng, cm, allow_infinite=bool(rng.random() < 0.3), y_hi=0.7)
    for ms in cm["margins"]:
        if ms["family"] == "MERTON":
            ms["params"]["sigma_j"] = max(ms["params"]["sigma_j"], 0.08)
        if ms["family"] in ("HEM", "MERTON"):
            ms["params"]["sigma"] = max(ms["params"]["sigma"], 0.1)
    return cm


def _sim(case, R):
    import logging

    logging.disable(logging.CRITICAL)
    from rpylib.distribution.univariate.poisson import Poisson
    from rpylib.process.levyprocess import LevyProcess

    rng = np.random.default_rng(case["seed"])
    np.random.seed(case["seed"] % (2**31))
    sim, mode, dates = case["sim"], case["mode"], case["dates"]
    T = float(rng.uniform(0.3, 2.5)) if rng.random() < 0.6 else float(rng.choice([1.0, 2.0, 0.7, 3.0, 1.2]))     # (round maturities: the cap divides them)
    eps = case["eps_frac"] * T if mode == "maxstep" else None
    spec = _model_for(sim, rng)
    wit = {"case": case, "model": spec, "T": T, "eps": eps}
    counts = case["counts"] if not (sim == "direct" and spec["family"] == "BS") else [0]    # a model without jumps never jumps
    rec = Recorder15(counts)
    product = _product(mode, dates, T)
    # ---- build the simulator -------------------------------------------------------------------------------------------
    try:
        grid = None
        if sim == "direct":
            model = W.build_model(spec)
            proc = LevyProcess(model)
            coupled = False
            dim = 1
        else:
            model = W.build_any_model(spec)
            dim = 1 if sim in ("chain", "coupling") else 2
            g = {"ctor": "fixed", "dim": dim, "h": float(rng.uniform(0.03, 0.1)), "n": int(rng.choice([5, 7, 9]))}
            grid = G.build_grid(g, model)
            meth = C.sampling_method("BINARYSEARCHTREEADAPTED1D" if dim == 1 else "BINARYSEARCHTREEADAPTED")
            if sim == "chain":
                from rpylib.process.markovchain.markovchain import MarkovChainProcess

                proc = MarkovChainProcess(model=model, method=meth, grid=grid)
                coupled = False
            elif sim == "copula":
                from rpylib.process.markovchain.markovchainlevycopula import MarkovChainLevyCopula

                proc = MarkovChainLevyCopula(levy_copula_model=model, grid=grid, method=meth)
                coupled = False
            elif sim == "coupling":
                from rpylib.process.coupling.couplingmarkovchain import CouplingMarkovChain

                proc = CouplingMarkovChain(model=model, method=meth, grid=grid)
                coupled = True
            else:
                from rpylib.process.coupling.couplinglevycopula import CouplingProcessLevyCopula

                proc = CouplingProcessLevyCopula(levy_copula_model=model, grid=grid, method=meth)
                coupled = True
    except Exception as exc:  # noqa: BLE001
        R.violation(f"{sim}-constructor-raises", f"{type(exc).__name__}: {exc}", wit)
        return

    def poisson_sample(self, size=1):
        out = np.array([next(rec.counts) for _ in range(size)])
        rec.poisson.append(out)
        return out

    orig_jt = LevyProcess.jump_times_from_nb_of_jumps
    orig_normal = np.random.normal

    def jt(dt, n):
        out = orig_jt(dt, n)
        rec.jump_times.append((float(dt), np.array(out, dtype=float, copy=True)))
        return out

    def normal(*a, **k):
        out = orig_normal(*a, **k)
        rec.normals.append(np.array(out, dtype=float, copy=True))
        return out

    npaths = 4
    # record-only tap on the samplers, at class level: the simulators bind sampler.sample at initialisation time
    from rpylib.distribution.variate.binarysearchtreeadapted import BinarySearchTreeAdapted, BinarySearchTreeAdapted1D

    taps = []
    # record-only taps on the coupling maps (fine increment -> coarse value), top-level calls only
    from rpylib.process.coupling.couplingmarkovchain import CouplingSimulation
    from rpylib.process.coupling.couplinglevycopula import CouplingLevyCopulaSimulation

    depth = [0]
    orig_cs1 = CouplingSimulation.coupling_state

    def coupling_state_1d(self, increment):
        out = orig_cs1(self, increment)
        rec.coarse.append(np.array(out, dtype=float, copy=True).reshape(-1))
        return out

    taps.append(mock.patch.object(CouplingSimulation, "coupling_state", coupling_state_1d))
    mangled = "_CouplingLevyCopulaSimulation__coupling_state"
    orig_csn = getattr(CouplingLevyCopulaSimulation, mangled)

    def coupling_state_nd(self, increment, axis_coordinates=None):
        depth[0] += 1
        try:
            out = orig_csn(self, increment, axis_coordinates)
        finally:
            depth[0] -= 1
        if depth[0] == 0:
            rec.coarse.append(np.array(out, dtype=float, copy=True).reshape(-1))
        return out

    taps.append(mock.patch.object(CouplingLevyCopulaSimulation, mangled, coupling_state_nd))
    for cls in (BinarySearchTreeAdapted, BinarySearchTreeAdapted1D):
        orig = cls.sample

        def sample(self, size=1, _orig=orig):
            out = _orig(self, size=size)
            rec.samples.append((int(size), [tuple(np.atleast_1d(x).tolist()) for x in out]))
            return out

        taps.append(mock.patch.object(cls, "sample", sample))
    import contextlib

    with contextlib.ExitStack() as stack:
        for t in taps:
            stack.enter_context(t)
        stack.enter_context(mock.patch.object(Poisson, "sample", poisson_sample))
        stack.enter_context(mock.patch.object(LevyProcess, "jump_times_from_nb_of_jumps", staticmethod(jt)))
        stack.enter_context(mock.patch.object(np.random, "normal", normal))
        try:
            if coupled:
                # (the maximum step shrinks from one level to the next, as in the SDE coupling: the paths of the level are judged with its own)
                proc.initialisation(product, max_step_epsilon=(None if eps is None else 2.5 * eps))
                proc.pre_computation(npaths, product)
                proc.next_level(mc_paths=npaths, path_managers=None, product=product, max_step_epsilon=eps)
                target = proc.fine_process
                simulate = proc.simulate_one_path_with_coupling
            else:
                proc.initialisation(product, max_step_epsilon=eps)
                if mode != "fixed" and case["seed"] % 3 == 0:
                    # history: the same simulation object served a product of ANOTHER maturity first (pre_computation takes the
                    # product: nothing of the earlier one may stay baked into the object -- e.g. the function capping the steps)
                    proc.pre_computation(npaths, _product(mode, dates, T * (0.37 if case["seed"] % 2 else 1.9)))
                    rec.reset()
                    R.hit("simulators_that_served_another_maturity_first")
                    R.klass("history:another-maturity-first:" + mode)
                proc.pre_computation(npaths, product)
                target = proc
                simulate = proc.simulate_one_path
        except Exception as exc:  # noqa: BLE001
            R.violation(f"{sim}-{mode}-setup-raises" + ("-multi-date" if dates > 2 else ""), f"initialisation / pre_computation raises "
                        f"{type(exc).__name__}: {exc}", wit)
            return
        # taps on the jump sizes
        if sim == "direct":
            mdl = proc.model
            orig_ji = mdl.jump_increment

            def ji(n):
                out = orig_ji(n=n)
                rec.jump_sizes.append(np.array(out, dtype=float, copy=True).reshape(-1))
                return out

            mdl.jump_increment = ji
        pre_normals = list(rec.normals)        # drawn by pre_computation (fixed dates): one block for all paths
        prod_times = np.asarray(product.times_grid().grid if hasattr(product.times_grid(), "grid") else product.times_grid(), dtype=float)
        for ip in range(npaths):
            rec.jump_times, rec.samples, rec.jump_sizes = [], [], []
            rec.normals, rec.coarse = [], []
            # the pre-drawn jump counts this path is going to consume (fixed dates), read before the simulation
            rec.next_counts = None
            for holder in [target] + [v for v in vars(target).values() if hasattr(v, "__dict__")]:
                q = getattr(holder, "_poisson_rv", None)
                if q is not None and len(q):
                    rec.next_counts = [int(c) for c in np.asarray(q[0]).reshape(-1)]
                    break
            try:
                path = simulate()
            except Exception as exc:  # noqa: BLE001
                R.violation(f"{sim}-{mode}-simulate-raises" + ("-multi-date" if dates > 2 else "-single-date"),
                            f"{sim} simulator, {mode} mode, {dates} product dates: simulate raises {type(exc).__name__}: {exc}", wit)
                return
            R.hit("paths_checked")
            R.hit({"fixed": "fixed_date_paths", "jumptimes": "jump_time_paths", "maxstep": "max_step_paths"}[mode])
            if dates > 2:
                R.hit("multi_date_paths")
            if coupled:
                R.hit("coupled_paths")
            ok = _judge(R, case, wit, sim, mode, dates, T, eps, path, rec, prod_times, target, grid, coupled, dim, pre_normals, ip)
            if not ok:
                return
    R.sample({"sim": sim, "mode": mode, "dates": dates, "T": T, "eps": eps, "model": W.any_label(spec)})


def _judge(R, case, wit, sim, mode, dates, T, eps, path, rec, prod_times, target, grid, coupled, dim, pre_normals, ip):
    tag = f"{sim}-{mode}" + ("-multi-date" if dates > 2 else "")
    times = np.asarray(path.jump_times, dtype=float)
    jp = np.asarray(path.jump_path, dtype=float)
    dp = np.asarray(path.diffusion_path, dtype=float)
    n = times.size
    if jp.shape[-1] != n or dp.shape[-1] != n:
        R.violation(f"{tag}-misaligned", f"{n} times, jump path {jp.shape}, diffusion path {dp.shape}", wit)
        return False
    if times[0] != 0.0 or abs(times[-1] - T) > 1e-12 * T or np.any(np.diff(times) <= 0):
        R.violation(f"{tag}-times", f"times {times[:6].tolist()} ... {times[-2:].tolist()} (maturity {T}): not 0 = t_0 < t_1 < ... = T", wit)
        return False
    if np.any(jp[..., 0] != 0) or np.any(dp[..., 0] != 0):
        R.violation(f"{tag}-start-not-zero", "path does not start at 0", wit)
        return False
    # fine component (index 0 of the first axis for coupled paths)
    jf = jp[0] if coupled else jp
    # ---- expected jump path from the recorded variates ----------------------------------------------------------------------
    if sim == "direct":
        sizes = [a for a in rec.jump_sizes]
    else:
        origin = target.grid.origin_coordinate
        sizes = []
        for size, incs in rec.samples:
            vals = []
            for inc in incs:
                if dim == 1:
                    vals.append(float(target.grid.axes[0][origin.value + int(inc[0])]))
                else:
                    vals.append([float(target.grid.axes[k][origin[k] + int(inc[k])]) for k in range(dim)])
            if dim > 1:
                sizes.append(np.array(vals, dtype=float).reshape(size, dim) if size else np.zeros((0, dim)))
            else:
                sizes.append(np.array(vals, dtype=float))
    n_jumps = int(sum(len(s) for s in sizes))
    if n_jumps == 0:
        R.hit("paths_without_jump")
    if mode == "fixed":
        if n != prod_times.size or not (np.max(np.abs(times - prod_times)) <= 1e-12 * T):
            R.violation(f"{tag}-times-not-product-dates", f"times {times.tolist()} vs product dates {prod_times.tolist()}", wit)
            return False
        # jumps per interval: direct -> one jump_increment call per interval; chains -> one sampler call per interval
        if len(sizes) != n - 1 and sim == "direct" and getattr(rec, "next_counts", None) is not None and len(rec.next_counts) == n - 1 \
                and sum(rec.next_counts) == n_jumps:
            # the jump sizes were not drawn interval by interval: in draw order, interval k owns the next N_k of them
            flat1 = np.concatenate([np.atleast_1d(s) for s in sizes]) if sizes else np.zeros(0)
            cuts = np.cumsum([0] + rec.next_counts)
            sizes = [flat1[cuts[k]:cuts[k + 1]] for k in range(n - 1)]
            got0 = np.diff(jf)
            # (sound whatever the assignment of the drawn sizes to the intervals: an interval without jump does not move, the total is the total)
            for k in range(n - 1):
                if rec.next_counts[k] == 0 and got0[k] != 0.0:
                    R.violation(f"{tag}-interval-without-jump-moves", f"{sim} fixed dates, jump counts {rec.next_counts}: the jump path moves by {float(got0[k])!r} over "
                                f"interval {k}, in which no jump occurs (drawn sizes {flat1.tolist()[:8]})", wit)
                    return False
            R.hit("fixed_date_paths_judged_from_the_pre_drawn_counts")
        if len(sizes) != n - 1:
            R.skip("recorded jump blocks do not match the intervals")
            return True
        per_int = np.array([np.sum(s, axis=0) if len(s) else (np.zeros(dim) if dim > 1 else 0.0) for s in sizes], dtype=float)
        want = np.cumsum(per_int, axis=0)
        got = jf[..., 1:].T if dim > 1 else jf[1:]
        if not np.allclose(got, want, rtol=1e-10, atol=1e-12):
            cum = "per-interval-sums-not-cumulated" if np.allclose(got, per_int, rtol=1e-10, atol=1e-12) else "other"
            R.violation(f"{tag}-jump-path-not-running-sum-{cum}", f"{sim} fixed dates, {dates} dates: jump path {np.asarray(got).tolist()[:5]}, running sum "
                        f"of the simulated jumps {np.asarray(want).tolist()[:5]} (per-interval sums {np.asarray(per_int).tolist()[:5]})", wit)
            return False
        # diffusion: scaled normals cumulated (1-d simulators; the n-d ones use a matrix)
        if dim == 1 and pre_normals:
            coeff = _sigma(target, coupled, sim)
            if coeff is not None:
                blk = pre_normals[-1]
                w = np.asarray(blk[ip]).reshape(-1)[: n - 1] if blk.ndim >= 2 else None
                if w is not None and w.size == n - 1:
                    wantd = np.cumsum(np.sqrt(np.diff(times)) * coeff * w)
                    gd = (dp[0] if coupled else dp)[1:]
                    if not np.allclose(gd, wantd, rtol=1e-10, atol=1e-12):
                        R.violation(f"{tag}-diffusion-not-running-sum", f"diffusion path {gd.tolist()[:4]} vs cumulated scaled normals {wantd.tolist()[:4]}", wit)
                        return False
    else:
        # jump times: all recorded sorted times (shifted by the start of their product interval)
        all_t = []
        for k, (dt, arr) in enumerate(rec.jump_times):
            all_t.extend((prod_times[k] + arr).tolist())
        all_t = np.array(all_t, dtype=float)
        flat = np.concatenate([np.atleast_1d(s) for s in sizes], axis=0) if sizes and n_jumps else np.zeros((0,) + ((dim,) if dim > 1 else ()))
        run = np.cumsum(flat, axis=0) if n_jumps else flat
        if mode == "jumptimes":
            want_t = np.concatenate([[0.0], all_t, [T]])
            if n != want_t.size or not (np.max(np.abs(times - want_t)) <= 1e-12 * T):
                R.violation(f"{tag}-times-not-jump-times", f"{n} times for {all_t.size} recorded jump times (+2)", wit)
                return False
            got = (jf[..., 1:-1].T if dim > 1 else jf[1:-1])
            if n_jumps and not np.allclose(got, run, rtol=1e-10, atol=1e-12):
                R.violation(f"{tag}-jump-path-not-running-sum" + ("-restarts-at-product-dates" if dates > 2 else ""),
                            f"{sim} jump-time mode, {dates} dates: jump path {np.asarray(got).tolist()[:6]} vs running sum of the simulated jumps "
                            f"{np.asarray(run).tolist()[:6]}", wit)
                return False
            last = jf[..., -1]
            if n_jumps and not np.allclose(last, run[-1], rtol=1e-10, atol=1e-12):
                R.violation(f"{tag}-value-at-maturity", f"value at maturity {np.asarray(last).tolist()} vs total of the jumps {np.asarray(run[-1]).tolist()}", wit)
                return False
        else:
            dts = np.diff(times)
            if np.any(dts > eps * (1 + 1e-9)):
                where = "path-without-jump" if n_jumps == 0 else ("after-the-last-jump" if np.argmax(dts) == dts.size - 1 else "between-jumps")
                R.violation(f"{sim}-maxstep-step-larger-than-cap-{where}", f"{sim} max-step mode: largest step {float(np.max(dts))!r} > eps = {eps!r} "
                            f"({where}; {n_jumps} jumps, maturity {T})", wit)
                return False
            # every original (time, value) pair present, inserted points repeat the preceding value
            j = 0
            prev = np.zeros(dim) if dim > 1 else 0.0
            for i in range(1, n):
                v = jf[..., i]
                if j < all_t.size and abs(times[i] - all_t[j]) <= 1e-12 * T:
                    if not np.allclose(v, run[j], rtol=1e-10, atol=1e-12):
                        R.violation(f"{tag}-jump-value-changed", f"at jump time {times[i]} the path carries {np.asarray(v).tolist()}, running sum "
                                    f"{np.asarray(run[j]).tolist()}", wit)
                        return False
                    j += 1
                elif not np.allclose(v, prev, rtol=1e-10, atol=1e-12):
                    R.violation(f"{tag}-inserted-value", f"inserted point at t = {times[i]} carries {np.asarray(v).tolist()}, preceding value "
                                f"{np.asarray(prev).tolist()}", wit)
                    return False
                prev = v
            if j != all_t.size:
                R.violation(f"{tag}-jump-time-lost", f"{all_t.size - j} simulated jump times are missing from the path", wit)
                return False
        # diffusion (1-d): with a Brownian component every step of positive length carries a Brownian increment (whatever the number of jumps)
        if dim == 1:
            coeff0 = _sigma(target, coupled, sim)
            if coeff0 is not None and coeff0 > 0:
                R.hit("steps_with_brownian_increment_checked", n - 1)
                incr = np.diff((dp[0] if coupled else dp).reshape(-1))
                if np.any(incr == 0.0):
                    R.violation(f"{tag}-step-without-brownian-increment" + ("-path-without-jump" if n_jumps == 0 else ""), f"{sim} {mode} mode, diffusion coefficient "
                                f"{coeff0!r}: the diffusion component does not move over {int(np.sum(incr == 0.0))} of the {n - 1} step(s) of the path "
                                f"({n_jumps} jump(s), {len(rec.normals)} block(s) of normal variates drawn)", wit)
                    return False
        # diffusion (1-d): normals drawn for this path, one per step
        if dim == 1 and rec.normals:
            coeff = _sigma(target, coupled, sim)
            w = np.asarray(rec.normals[-1]).reshape(-1)
            if coeff is not None and w.size == n - 1:
                wantd = np.cumsum(np.sqrt(np.diff(times)) * coeff * w)
                gd = (dp[0] if coupled else dp)[1:]
                if not np.allclose(gd, wantd, rtol=1e-10, atol=1e-12):
                    R.violation(f"{tag}-diffusion-not-running-sum", f"diffusion path {gd.tolist()[:4]} vs cumulated scaled normals {wantd.tolist()[:4]}", wit)
                    return False
    # diffusion of the (uncoupled) copula chain in the jump-time modes: normals drawn for this path, a (dim, steps) block
    if dim > 1 and not coupled and mode != "fixed" and rec.normals:
        w = np.asarray(rec.normals[-1], dtype=float).reshape(-1)
        if w.size == dim * (n - 1):
            D = np.asarray(target._path_simulation.diffusion_matrix, dtype=float)
            wantd = np.cumsum(np.sqrt(np.diff(times)) * (D @ w.reshape(dim, n - 1)), axis=1)
            R.hit("nd_diffusion_running_sums")
            if np.any(D != 0):
                R.hit("nd_diffusion_running_sums_nonzero_matrix")
            if not np.allclose(dp[:, 1:], wantd, rtol=1e-10, atol=1e-12):
                i = int(np.argmax(np.max(np.abs(dp[:, 1:] - wantd), axis=0)))
                R.violation(f"{tag}-nd-diffusion-not-running-sum", f"{sim} {mode} mode: diffusion component {dp[:, i + 1].tolist()} at time index {i + 1}, cumulated "
                            f"scaled correlated normals {wantd[:, i].tolist()} ({n - 1} steps)", wit)
                return False
        else:
            R.skip("nd-normals-do-not-match-the-steps")
    if coupled and not _judge_coarse(R, wit, tag, sim, mode, dates, T, times, jp[1], rec, prod_times, dim):
        return False
    if n_jumps:
        R.nontrivial_case(sim, mode, dates, case["seed"], ip)
    return True


def _judge_coarse(R, wit, tag, sim, mode, dates, T, times, jc, rec, prod_times, dim):
    """coarse component of a coupled path = running sum of the coarse values returned by the coupling map for the simulated fine
    increments (recorded at the map), carried over the product dates; constant between jump times"""
    blocks = [int(size) for size, _ in rec.samples]
    total = int(sum(blocks))
    if len(rec.coarse) != total:
        R.skip("coupling-map-calls-do-not-match-the-sampled-increments")
        return True
    R.hit("coarse_component_checks")
    vals = np.array(rec.coarse, dtype=float).reshape(total, dim) if total else np.zeros((0, dim))
    run = np.cumsum(vals, axis=0)
    n = times.size
    jc2 = jc.reshape(dim, n).T if dim > 1 else np.asarray(jc, dtype=float).reshape(n, 1)       # (n, dim)
    if mode == "fixed":
        if len(blocks) != n - 1:
            return True
        ends = np.cumsum(blocks)
        want = np.array([run[e - 1] if e > 0 else np.zeros(dim) for e in ends])
        got = jc2[1:]
    else:
        all_t = []
        for k, (dt, arr) in enumerate(rec.jump_times):
            all_t.extend((prod_times[k] + arr).tolist())
        all_t = np.array(all_t, dtype=float)
        if all_t.size != total:
            R.skip("jump-times-do-not-match-the-sampled-increments")
            return True
        # value carried at time t: running sum over the jumps at or before t
        cnt = np.searchsorted(all_t, times * (1 + 1e-15) + 1e-15 * T, side="right")
        want = np.array([run[c - 1] if c > 0 else np.zeros(dim) for c in cnt])
        got = jc2
    if not np.allclose(got, want, rtol=1e-10, atol=1e-12):
        i = int(np.argmax(np.max(np.abs(got - want), axis=1)))
        R.violation(f"{tag}-coarse-jump-path-not-running-sum", f"{sim} {mode} mode, {dates} dates: coarse jump component {got[i].tolist()} at time index {i}, running "
                    f"sum of the coarse values returned by the coupling map up to that time {want[i].tolist()} ({total} jumps)", wit)
        return False
    return True


def _sigma(target, coupled, sim):
    if sim == "direct":
        return float(target.model.diffusion_coefficient())
    return float(getattr(target, "equivalent_diffusion_coefficient", np.nan))
