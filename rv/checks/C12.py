"""C12 -- rectangle mass of a Levy-copula model is a measure consistent with its margins.

Monitor: LevyCopulaModel.mass (dimension-specific fast paths), _mass_nd, margin_tail_integral,
marginal_tail_integral, inverse_tail_integral on generated rectangles of every sign pattern, with and
without index subsets, interleaved over several model instances.  Oracle: the corner-sum definition of the
Levy measure on quadrature tail integrals (rv.chain.CopulaMassOracle), additivity, marginal quadrature.
"""
from __future__ import annotations

import itertools
import math

import numpy as np

from .. import chain as C, workloads as W
from ..oracles import quadrature as Q

ID = "C12"
RULE = ("case = (copula-model spec of dimension 2|3, seed): 30 rectangles not containing the origin, every coordinate interval "
        "drawn from {positive, negative, straddling 0 (at most d-1), half-infinite, whole line, (0, c] for finite-activity margins}; per rectangle: non-negativity, "
        "fast path = general formula = harness corner-sum oracle, additivity under a random split of a random axis (incl. at 0), "
        "whole-line coordinates = margin of the others, index subsets = I-margins; tail-integral inverse round trips; queries "
        "interleaved over two instances and repeated on a fresh one; non-trivial = rectangle of positive mass; distinct = "
        "distinct (model, rectangle class pattern)")
ASSUMPTIONS = [
    "tolerance: 1e-9 * (sum of |corner terms|) + 1e-7 |mass| + 100 * quadrature error; the copula callable is trusted (C11)",
    "margins in the documented boxes; rectangles with end points of magnitude 1e-3..5",
]
REQUIRED_COUNTERS = ["rectangles", "fast_vs_general", "oracle_comparisons", "additivity_checks", "margin_checks",
                     "subset_checks", "inverse_roundtrips", "instance_interleavings", "rectangles_starting_at_0", "signed_zero_end_points", "copula_changed_on_a_used_model", "implied_density_integrals", "integer_end_points", "index_families_in_any_order", "rectangles_with_several_end_points_at_0"]
MIN_NONTRIVIAL = {"quick": 100, "thorough": 1500}
THOROUGH_ROUNDS = 10      # the thorough tier runs the generators this many times (different seeds)


def gen_cases(tier, seed):
    rng = np.random.default_rng(seed + 1200)
    n = 24 if tier == "quick" else 320
    cases = []
    for j in range(n):
        dim = 2 if j % 2 else 3
        kind = ["clayton", "clayton", "independent", "dependent", "clayton"][j % 5]
        cm = W.gen_copula_model_spec(rng, dim=dim, kind=kind)
        for ms in cm["margins"]:
            if ms["family"] == "MERTON":
                ms["params"]["sigma_j"] = max(ms["params"]["sigma_j"], 0.05)
        cases.append({"model": cm, "seed": int(rng.integers(2**31))})
    return cases


def _interval(rng, klass):
    def mag():
        return W.r6(W._logu(rng, 1e-3, 5.0))

    if klass == "pos":
        a = mag()
        return a, W.r6(a * rng.uniform(1.05, 20))
    if klass == "from-0":
        return 0.0, mag()
    if klass == "neg":
        a = mag()
        return -W.r6(a * rng.uniform(1.05, 20)), -a
    if klass == "straddle":
        return -mag(), mag()
    if klass == "right-inf":
        return mag(), math.inf
    if klass == "left-inf":
        return -math.inf, -mag()
    if klass == "whole":
        return -math.inf, math.inf
    raise ValueError(klass)


def _rectangle(rng, d, finite_activity=(), axis_mass_with_infinite_activity=False):
    while True:
        ks = [str(rng.choice(["pos", "neg", "straddle", "right-inf", "left-inf", "whole"], p=[0.25, 0.25, 0.2, 0.1, 0.1, 0.1])) for _ in range(d)]
        if sum(1 for k in ks if k in ("straddle", "whole")) <= d - 1:
            break
    for k in range(d):
        # (0, c]: lower end point exactly at 0 -- unambiguous (and finite) when the margin has finite activity
        if k < len(finite_activity) and ks[k] == "pos" and rng.random() < (0.4 if finite_activity[k] else 0.15):
            # infinite activity: the mass is finite as soon as another coordinate stays away from 0
            # (with independent components the axes carry mass and U(0+) = inf cannot tell (0, c] from [0, c]: a convention)
            if finite_activity[k] or (not axis_mass_with_infinite_activity and
                                      any(ks[j] in ("pos", "neg", "right-inf", "left-inf") for j in range(d) if j != k)):
                ks[k] = "from-0"
    ab = [_interval(rng, k) for k in ks]
    return ks, [x[0] for x in ab], [x[1] for x in ab]


def run_case(case, R):
    R.evaluation()
    cm = case["model"]
    rng = np.random.default_rng(case["seed"])
    label = W.copula_label(cm)
    d = len(cm["margins"])
    m1 = W.build_copula_model(cm)
    m2 = W.build_copula_model(cm)
    oracle = C.CopulaMassOracle(cm, m1.copula, m1.models, [(-math.inf, math.inf)] * d)
    wit = {"model": cm}
    R.klass(label)
    fast = {2: "_mass_2d", 3: "_mass_3d"}[d]
    # absolute floor: the closed-form tail integrals carry an absolute rounding error of ~1e-16 times the mass of the margin
    floor = 1e-14 * sum(abs(oracle.U(k, 1e-3)) + abs(oracle.U(k, -1e-3)) for k in range(d))
    finite = [ms["family"] in ("HEM", "MERTON") or (ms["family"] == "CGMY" and ms["params"]["y"] < 0) for ms in cm["margins"]]
    log = []
    zero_queries = []          # rectangles with an end point exactly at 0
    for r in range(30):
        ks, a, b = _rectangle(rng, d, finite, cm["copula"]["kind"] == "independent")
        R.hit("rectangles")
        if "from-0" in ks:
            R.hit("rectangles_starting_at_0")
        pat = "/".join(ks)
        model = m1 if r % 2 else m2           # interleave two instances (lru_cache on the tail integrals)
        try:
            got = float(model.mass(a, b))
            gen = float(model._mass_nd(a, b))
        except Exception as exc:  # noqa: BLE001
            R.violation(f"mass-raises-{d}d", f"{label}: mass({a}, {b}) raises {type(exc).__name__}: {exc}", wit)
            continue
        want = oracle.mass(a, b)
        if not (math.isfinite(got) and math.isfinite(gen)):
            R.violation(f"mass-not-finite-{d}d" + ("-end-point-at-0" if "from-0" in ks else ""), f"{label}: mass({a}, {b}) = {got!r} (general formula {gen!r}) for a "
                        f"rectangle of finite mass {want!r} (pattern {pat})", wit)
            continue
        # cancellation scale: tail-integral magnitudes at the finite end points
        scale = sum(abs(oracle.U(k, x)) for k in range(d) for x in (a[k], b[k]) if math.isfinite(x) and math.isfinite(oracle.U(k, x))) + abs(want)
        tol = 1e-9 * scale + 1e-7 * abs(want) + 100 * oracle.max_err + floor
        R.hit("fast_vs_general")
        if not (abs(got - gen) <= 1e-10 * scale + 1e-9 * abs(gen)):
            R.violation(f"fast-path-differs-{d}d-" + ("straddling" if "straddle" in ks or "whole" in ks else "single-orthant"),
                        f"{label}: {fast}({a}, {b}) = {got!r} but the general formula gives {gen!r} (pattern {pat})", wit)
        R.hit("oracle_comparisons")
        if not (abs(got - want) <= tol):
            R.violation(f"mass-differs-from-definition-{d}d-" + ("straddling" if "straddle" in ks or "whole" in ks else "single-orthant"),
                        f"{label}: mass({a}, {b}) = {got!r}, corner-sum definition on quadrature tail integrals = {want!r} (pattern {pat})", wit)
        if got < -tol:
            R.violation(f"negative-mass-{d}d", f"{label}: mass({a}, {b}) = {got!r} < 0", wit)
        log.append((a, b, got))
        if "from-0" in ks:
            zero_queries.append((list(a), list(b)))
        if want > 1e-9 * scale:
            R.nontrivial_case(label, cm, pat, r)
        # additivity: split a random axis at a random point (at 0 when the interval straddles it, half of the time)
        k = int(rng.integers(d))
        lo = a[k] if math.isfinite(a[k]) else min(b[k], 0.0) - 3.0
        hi = b[k] if math.isfinite(b[k]) else max(a[k], 0.0) + 3.0
        c = 0.0 if (a[k] < 0 < b[k] and rng.random() < 0.5) else W.r6(lo + (hi - lo) * rng.uniform(0.1, 0.9))
        if a[k] < c < b[k]:
            a2, b1 = list(a), list(b)
            b1[k], a2[k] = c, c
            # a piece must not contain the origin: skip when the split leaves {0} x straddling others... (origin excluded anyway)
            try:
                p1, p2 = float(model.mass(a, b1)), float(model.mass(a2, b))
                s = p1 + p2
                if c == 0.0:
                    zero_queries += [(list(a), list(b1)), (list(a2), list(b))]
                R.hit("additivity_checks")
                if not math.isfinite(s):
                    R.violation(f"mass-not-finite-{d}d" + ("-end-point-at-0" if c == 0.0 else ""), f"{label}: the pieces of ({a}, {b}] split at x_{k} = {c} "
                                f"have masses {p1!r} and {p2!r}", wit)
                    continue
                for (pa, pb, pv) in ((a, b1, p1), (a2, b, p2)):
                    if c == 0.0:
                        break     # which piece owns the axis x_k = 0 is a convention the property does not fix
                    pw = oracle.mass(pa, pb)
                    if not (abs(pv - pw) <= tol + 1e-9 * scale):
                        R.violation(f"mass-differs-from-definition-{d}d-piece-" + ("ending-at-0" if c == 0.0 else "generic"),
                                    f"{label}: mass({pa}, {pb}) = {pv!r}, definition = {pw!r}", wit)
                if not (abs(s - got) <= 2e-9 * scale + 1e-7 * abs(got)):
                    R.violation(f"mass-not-additive-{d}d-" + ("split-at-0" if c == 0.0 else "split"),
                                f"{label}: mass over ({a}, {b}] = {got!r} but the two pieces split at x_{k} = {c} sum to {s!r}", wit)
            except Exception as exc:  # noqa: BLE001
                R.violation(f"mass-raises-{d}d", f"{label}: mass of a piece raises {type(exc).__name__}: {exc}", wit)
        # whole line in all other coordinates = marginal mass
        k = int(rng.integers(d))
        if ks[k] in ("pos", "neg", "right-inf", "left-inf") or (ks[k] == "from-0" and finite[k]):
            aw, bw = [-math.inf] * d, [math.inf] * d
            aw[k], bw[k] = a[k], b[k]
            R.hit("margin_checks")
            gm = float(model.mass(aw, bw))
            wm = abs(oracle.U(k, a[k]) - oracle.U(k, b[k]))
            if not (abs(gm - wm) <= 1e-9 * (abs(oracle.U(k, a[k])) + abs(oracle.U(k, b[k]))) + 100 * oracle.max_err + floor):
                R.violation(f"whole-line-mass-not-margin-{d}d", f"{label}: mass with every other coordinate over the whole line = {gm!r}, "
                            f"marginal mass of ({a[k]}, {b[k]}] = {wm!r}", wit)
        # index subsets = I-margins
        if d == 3:
            idx = sorted(int(v) for v in rng.choice(3, size=int(rng.integers(1, 3)), replace=False))
        else:
            idx = [int(rng.integers(2))]
        ai, bi = [a[i] for i in idx], [b[i] for i in idx]
        if not all(x < 0 < y for x, y in zip(ai, bi)) and not any(ks[i] == "from-0" and not finite[i] for i in idx):
            R.hit("subset_checks")
            try:
                gs = float(model.mass(ai, bi, list(idx)))
                ws = oracle.mass(ai, bi, list(idx))
                sc = sum(abs(oracle.U(k2, x)) for k2, x in zip(idx + idx, ai + bi) if math.isfinite(x) and math.isfinite(oracle.U(k2, x))) + abs(ws)
                if not (abs(gs - ws) <= 1e-9 * sc + 1e-7 * abs(ws) + 100 * oracle.max_err + floor):
                    R.violation(f"subset-mass-not-I-margin-{d}d-{len(idx)}of{d}", f"{label}: mass({ai}, {bi}, indices={idx}) = {gs!r}, "
                                f"I-margin of the copula at the tail integrals = {ws!r}", wit)
            except Exception as exc:  # noqa: BLE001
                R.violation(f"subset-mass-raises-{d}d", f"{label}: mass({ai}, {bi}, indices={idx}) raises {type(exc).__name__}: {exc}", wit)
    # rectangles with end points exactly at 0 on several coordinates (intervals (0, c] and (-c, 0]) and one coordinate away from 0: whichever
    # piece owns an axis, the mass is a number >= 0 and the fast path agrees with the general formula
    for _ in range(12):
        kk = [str(rng.choice(["from0", "to0", "pos", "neg"])) for _ in range(d)]
        kk[int(rng.integers(d))] = str(rng.choice(["pos", "neg"]))
        if not any(v in ("from0", "to0") for v in kk):
            kk[(kk.index("pos") if "pos" in kk else kk.index("neg")) - 1] = "to0"
        a, b = [], []
        for v in kk:
            c1 = W.r6(W._logu(rng, 1e-2, 1.0))
            lo_, hi_ = {"from0": (0.0, c1), "to0": (-c1, 0.0), "pos": (c1, W.r6(c1 * 2.5)), "neg": (-W.r6(c1 * 2.5), -c1)}[v]
            a.append(lo_)
            b.append(hi_)
        try:
            with np.errstate(all="ignore"):
                gz, gn = float(m1.mass(a, b)), float(m1._mass_nd(a, b))
        except Exception as exc:  # noqa: BLE001
            R.violation(f"mass-raises-{d}d", f"{label}: mass({a}, {b}) raises {type(exc).__name__}: {exc}", wit)
            break
        R.hit("rectangles_with_several_end_points_at_0")
        if math.isnan(gz) or gz < -floor - 1e-12 or (math.isfinite(gz) and math.isfinite(gn) and not (abs(gz - gn) <= 1e-9 * (abs(gn) + floor) + 1e-12)) or (math.isfinite(gz) != math.isfinite(gn)):
            R.violation(f"mass-negative-or-undefined-{d}d-end-points-at-0", f"{label}: mass({a}, {b}) = {gz!r} (general formula {gn!r}) for intervals of the kinds {kk}", wit)
            break
    # index families in any order (the k-th interval belongs to the margin indices[k]), the full family included
    for a, b, got in [q for q in log if all(not (x < 0 < y) for x, y in zip(q[0], q[1]))][:6]:
        perm = [int(v) for v in rng.permutation(d)]
        if d == 3 and rng.random() < 0.5:
            perm = perm[:2]
        if perm == sorted(perm) and len(perm) == d:
            perm = perm[::-1]
        ap, bp = [a[i] for i in perm], [b[i] for i in perm]
        if any(ks_ == 0 for ks_ in ap + bp):
            continue
        try:
            gp = float(m1.mass(ap, bp, list(perm)))
            wp = oracle.mass(ap, bp, list(perm))
        except Exception as exc:  # noqa: BLE001
            R.violation(f"subset-mass-raises-{d}d", f"{label}: mass({ap}, {bp}, indices={perm}) raises {type(exc).__name__}: {exc}", wit)
            break
        R.hit("index_families_in_any_order")
        scp = sum(abs(oracle.U(k2, x)) for k2, x in zip(perm + perm, ap + bp) if math.isfinite(x) and math.isfinite(oracle.U(k2, x))) + abs(wp)
        if not (abs(gp - wp) <= 1e-9 * scp + 1e-7 * abs(wp) + 100 * oracle.max_err + floor):
            R.violation(f"subset-mass-not-I-margin-{d}d-indices-out-of-order" + ("-full-family" if len(perm) == d else ""), f"{label}: mass({ap}, {bp}, indices={perm}) = {gp!r}, "
                        f"I-margin of the copula at the tail integrals of the margins {perm} = {wp!r}", wit)
            break
    # fresh instance, same queries in reversed order: results must not depend on the history of an instance
    m3 = W.build_copula_model(cm)
    R.hit("instance_interleavings")
    for a, b, got in reversed(log):
        again = float(m3.mass(a, b))
        if again != got and not (abs(again - got) <= 1e-13 * (abs(got) + 1e-300)):
            R.violation("mass-depends-on-instance-history", f"{label}: mass({a}, {b}) = {got!r} on a used instance, {again!r} on a fresh one", wit)
            break
    # end points written as integers (Python int, numpy integer): the same rectangle
    int_q = [(a, b, got) for (a, b, got) in log if all(math.isfinite(x) and math.isfinite(y) for x, y in zip(a, b))][:3]
    for a, b, got in int_q:
        k = int(rng.integers(d))
        ai, bi = list(a), list(b)
        ai[k], bi[k] = (-2, -1) if b[k] < 0 else ((1, 2) if a[k] > 0 else (-1, 1))
        if rng.random() < 0.5:
            ai[k], bi[k] = np.int64(ai[k]), np.int64(bi[k])
        af, bf = [float(x) for x in ai], [float(x) for x in bi]
        try:
            vi, vf = float(m1.mass(ai, bi)), float(m1.mass(af, bf))
        except Exception as exc:  # noqa: BLE001
            R.violation(f"mass-raises-{d}d-integer-end-point", f"{label}: mass({ai}, {bi}) with integer end points raises {type(exc).__name__}: {exc}", wit)
            break
        R.hit("integer_end_points")
        if vi != vf and not (abs(vi - vf) <= 1e-13 * abs(vf)):
            R.violation(f"mass-depends-on-the-type-of-an-end-point-{d}d", f"{label}: mass({ai}, {bi}) = {vi!r} with integer end points, {vf!r} with floats", wit)
    # an end point at zero written -0.0 (the result of -x, of mirroring a grid, of rounding a tiny negative number) is the same end point:
    # same mass, whichever of the two is asked first on an instance
    if finite[0] or cm["copula"]["kind"] != "independent":
        c0, c1 = W.r6(W._logu(rng, 1e-2, 1.0)), W.r6(W._logu(rng, 1e-2, 0.5))
        zero_queries.append(([0.0] + [c1] * (d - 1), [c0] + [c1 * 3.0] * (d - 1)))
    for order in ("negative-zero-first", "positive-zero-first"):
        mz = W.build_copula_model(cm)
        for a, b in zero_queries[:12]:
            an, bn = [(-0.0 if x == 0 else x) for x in a], [(-0.0 if x == 0 else x) for x in b]
            try:
                if order == "negative-zero-first":
                    vn = float(mz.mass(an, bn))
                    vp = float(mz.mass(a, b))
                else:
                    vp = float(mz.mass(a, b))
                    vn = float(mz.mass(an, bn))
            except Exception as exc:  # noqa: BLE001
                R.violation(f"mass-raises-{d}d", f"{label}: mass({a}, {b}) with the zero written -0.0 raises {type(exc).__name__}: {exc}", wit)
                break
            R.hit("signed_zero_end_points")
            ref = next((g for (la, lb, g) in log if la == a and lb == b), None)
            bad = (vn != vp and not (abs(vn - vp) <= 1e-13 * (abs(vp) + 1e-300))) or (ref is not None and vp != ref and not (abs(vp - ref) <= 1e-13 * (abs(ref) + 1e-300)))
            if bad or vn < -floor - 1e-12:
                R.violation(f"mass-depends-on-the-sign-of-a-zero-end-point-{order}", f"{label}: mass({an}, {bn}) = {vn!r} with the end point written -0.0, "
                            f"{vp!r} with 0.0 (fresh instance, {order}" + (f"; {ref!r} on the instance used first" if ref is not None else "") + ")", wit)
                break
    # the implied joint density: on a finite rectangle inside one open orthant the mass is the integral of
    #   |d^d F / du_1..du_d (U_1(x_1), .., U_d(x_d))| * nu_1(x_1) .. nu_d(x_d)
    # (the copula's stated mixed derivative at the tail integrals; Gauss-Legendre, 2 panels x 12 nodes per coordinate)
    if cm["copula"]["kind"] == "clayton" and hasattr(m1.copula, "x_first_derivative"):
        # a narrow rectangle (each side [c, 1.3 c], c in [0.01, 0.5], either sign): the integrand is smooth over it
        a, b = [], []
        for k in range(d):
            c_ = W.r6(W._logu(rng, 0.01, 0.5))
            sgn = 1.0 if rng.random() < 0.5 else -1.0
            a.append(min(sgn * c_, sgn * 1.3 * c_))
            b.append(max(sgn * c_, sgn * 1.3 * c_))
        got = float(m1.mass(a, b))
        if got > 1e-9 * sum(abs(oracle.U(k, a[k])) + abs(oracle.U(k, b[k])) for k in range(d)):
            import time as _time
            from scipy import integrate as _si

            t_start = _time.time()

            class _TooSlow(Exception):
                pass

            def joint(*xs):
                if _time.time() - t_start > 20.0:
                    raise _TooSlow()
                xs = xs[::-1]          # nquad hands the innermost variable first
                w = 1.0
                for k in range(d):
                    w *= float(m1.models[k].levy_triplet.nu(float(xs[k])))
                if w == 0.0:
                    return 0.0
                u = np.array([float(m1.marginal_tail_integral(k, float(xs[k]))) for k in range(d)])
                return w * abs(float(m1.copula.x_first_derivative(u=u)))

            try:
                try:
                    total, err_q = _si.nquad(joint, [(a[k], b[k]) for k in range(d)][::-1], opts={"epsabs": 0.0, "epsrel": 1e-9, "limit": 60})
                except _TooSlow:
                    total, err_q = math.nan, math.inf
                if not (err_q <= 1e-7 * abs(got)):
                    R.skip("implied-density-oracle-inconclusive")
                else:
                    R.hit("implied_density_integrals")
                    if not (abs(total - got) <= 1e-6 * abs(got) + 10 * err_q + floor):
                        R.violation(f"mass-differs-from-the-integral-of-the-implied-density-{d}d", f"{label}: mass({a}, {b}) = {got!r}, integral of the copula's stated "
                                    f"mixed derivative at the tail integrals times the marginal densities = {total!r} (+-{err_q:.1e})", wit)
            except Exception as exc:  # noqa: BLE001
                R.violation(f"implied-density-raises-{d}d", f"{label}: x_first_derivative raises {type(exc).__name__}: {exc}", wit)
    # the copula of a used model (or of a deep copy of a used model) changed: the masses are those of a model built with the new copula
    if cm["copula"]["kind"] == "clayton" and log:
        import copy

        cm2 = dict(cm, copula=dict(cm["copula"], theta=W.r6(cm["copula"]["theta"] * float(rng.choice([0.35, 2.7]))), eta=W.r6(float(rng.uniform(0.05, 0.95)))))
        fresh2 = W.build_copula_model(cm2)
        how = ["deep-copy-then-parameters-assigned", "copula-object-replaced"][case["seed"] % 2]
        if how == "copula-object-replaced":
            changed = m1
            changed.copula = W.build_copula_model(cm2).copula
        else:
            changed = copy.deepcopy(m1)
            changed.copula.theta = cm2["copula"]["theta"]
            changed.copula.eta = cm2["copula"]["eta"]
        R.hit("copula_changed_on_a_used_model")
        for a, b, _ in log[:12]:
            try:
                v1, v2 = float(changed.mass(a, b)), float(fresh2.mass(a, b))
            except Exception as exc:  # noqa: BLE001
                R.violation(f"mass-raises-{d}d", f"{label}: mass({a}, {b}) after a change of copula raises {type(exc).__name__}: {exc}", wit)
                break
            if v1 != v2 and not (abs(v1 - v2) <= 1e-12 * (abs(v2) + floor)):
                R.violation(f"mass-follows-the-old-copula-{d}d-{how}", f"{label}: copula changed to {cm2['copula']} ({how}): mass({a}, {b}) = {v1!r}, a model built "
                            f"with that copula gives {v2!r}", wit)
                break
    # inverse tail integral
    for i in range(d):
        ms = cm["margins"][i]
        for _ in range(4):
            x = W.r6(W._logu(rng, 1e-3, 2.0)) * (1 if rng.random() < 0.5 else -1)
            y = float(m1.marginal_tail_integral(i, x))
            yq = oracle.U(i, x)
            R.hit("inverse_roundtrips")
            if not (abs(y - yq) <= 1e-8 * abs(yq) + 100 * oracle.max_err + floor):
                R.violation("marginal-tail-integral-differs", f"{label}: U_{i}({x}) = {y!r}, quadrature {yq!r}", wit)
                continue
            if abs(y) < 1e4 * floor + 1e-9 or abs(y) > 1e7:
                continue
            xi = float(m1.inverse_tail_integral(i, y))
            dens = abs(float(m1.models[i].levy_triplet.nu(x)))
            if not (abs(xi - x) <= 1e-9 * abs(x) + 1e-12 + ((1e-10 * abs(y) + 10 * floor) / dens if dens > 0 else 0)):
                R.violation("inverse-tail-integral-does-not-invert", f"{label}: inverse_tail_integral({i}, U_{i}({x})) = {xi!r}", wit)
            y2 = float(m1.marginal_tail_integral(i, xi))
            if not (abs(y2 - y) <= 1e-8 * abs(y)):
                R.violation("inverse-tail-integral-does-not-invert", f"{label}: U_{i}(inverse({y})) = {y2!r}", wit)
    R.sample({"model": label, "margins": [W.model_label(m) for m in cm["margins"]], "copula": cm["copula"],
              "example": [[log[0][0], log[0][1], log[0][2]]] if log else []})
