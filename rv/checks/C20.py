"""C20 -- calibration reprices its target; derived parameters stay in sync with updates.

Monitor: calibrate_model_parameter, calibrate_model_parameter_to_atm_call, run_default_calibration on generated
(pre-screened) problems with deep snapshots of the input model; Parameters objects driven through generated assignment
histories followed by initialisation(); every constrained attribute probed with invalid values.
Oracle: an independent COS call by the harness on the rebuilt model; a directly constructed model for the final values.
"""
from __future__ import annotations

import copy
import math
import warnings

import numpy as np

from .. import workloads as W

ID = "C20"
RULE = ("case = (model type, start parameters, maturity, target Black-Scholes volatility pre-screened for a sign change over the "
        "default interval) for the calibration claims; (model type, sequence of 1..8 attribute assignments incl. re-assignments) "
        "for the parameter claims; (class, attribute, invalid value) for the constraints; non-trivial = calibration with a root "
        "strictly inside the interval / history with >= 2 assignments; distinct = distinct seed")
ASSUMPTIONS = ["calibration problems are pre-screened by the harness (COS prices at the interval ends bracket the target)",
               "repricing tolerance 1e-6 x spot (brentq xtol 2e-12 on the parameter)"]
REQUIRED_COUNTERS = ["default_calibrations", "parameter_calibrations", "repricing_checks", "input_untouched_checks", "history_rebuilds", "short_maturity_calibrations",
                     "constraint_probes", "calibrations_without_solution_refused", "solutions_near_the_lower_end", "histories_moving_a_subset_of_the_parameters"]
MIN_NONTRIVIAL = {"quick": 40, "thorough": 500}
THOROUGH_ROUNDS = 20      # the thorough tier runs the generators this many times (different seeds)
REPRICE_TOL = 1e-8        # relative to the spot: the calibrated value reprices the target within the root-finder tolerance (see DESIGN)
SHARD_TIMEOUT = {"quick": 900, "thorough": 7200}
FAMS = ["HEM", "MERTON", "VG", "CGMY"]


def gen_cases(tier, seed):
    rng = np.random.default_rng(seed + 2000)
    n = 32 if tier == "quick" else 400
    cases = [{"kind": "calib", "seed": int(rng.integers(2**31)), "family": FAMS[i % 4], "mode": ["default", "atm", "generic"][i % 3]} for i in range(n)]
    # maturities of days to weeks (jump-diffusions: the density is smooth, the default COS expansion still converges)
    cases += [{"kind": "calib", "seed": int(rng.integers(2**31)), "family": ["HEM", "MERTON"][i % 2], "mode": ["default", "atm", "generic"][i % 3], "short": True}
              for i in range(8 if tier == "quick" else 60)]
    # solutions close to the lower end of the search interval (where the price hardly moves with the parameter: many root-finder iterations)
    cases += [{"kind": "calib", "seed": int(rng.integers(2**31)), "family": ["MERTON", "HEM", "MERTON", "VG"][i % 4], "mode": ["default", "atm", "generic"][i % 3], "low": True}
              for i in range(9 if tier == "quick" else 90)]
    # no solution inside the given interval (the root lies beyond its upper end): the call raises, or returns an admissible value that reprices
    cases += [{"kind": "calib", "seed": int(rng.integers(2**31)), "family": FAMS[i % 4], "mode": "generic", "beyond": True} for i in range(8 if tier == "quick" else 80)]
    cases += [{"kind": "history", "seed": int(rng.integers(2**31)), "family": (FAMS + ["BS"])[i % 5]} for i in range(n)]
    # one parameter assigned alone (every parameter of every family in turn), then initialisation()
    for fam, names_ in (("HEM", ["sigma", "p", "eta1", "eta2", "intensity"]), ("MERTON", ["sigma", "mu_j", "sigma_j", "intensity"]), ("VG", ["sigma", "nu", "theta"]),
                        ("CGMY", ["c", "g", "m", "y"])):
        for nm in names_:
            cases.append({"kind": "history", "seed": int(rng.integers(2**31)), "family": fam, "only": nm})
    cases += [{"kind": "constraints", "seed": int(rng.integers(2**31))} for _ in range(4 if tier == "quick" else 40)]
    return cases


def run_case(case, R):
    warnings.simplefilter("ignore")
    R.evaluation()
    {"calib": _calib, "history": _history, "constraints": _constraints}[case["kind"]](case, R)


# ---------------------------------------------------------------------------------------------------------------
def _box_spec(rng, fam):
    """start parameters in a box where COS is accurate (see C18)"""
    from .C18 import gen_spec

    spec, T = gen_spec(rng, fam)
    return spec, T


def _snapshot(model):
    p = model.levy_model.parameters
    return {"params": copy.deepcopy(p.__dict__), "a": float(model.levy_triplet.a), "sigma": float(model.levy_triplet.sigma),
            "rep": model.levy_triplet.representation, "omega": float(model.omega), "spot": model.spot, "r": model.r, "d": model.d}


def _same_snapshot(a, b):
    if set(a["params"]) != set(b["params"]):
        return False
    for k in a["params"]:
        if not np.array_equal(np.asarray(a["params"][k], dtype=float), np.asarray(b["params"][k], dtype=float), equal_nan=True):
            return False
    return all(a[k] == b[k] for k in ("a", "sigma", "rep", "omega", "spot", "r", "d"))


def _low_target(rng, fam, a_, b_):
    """a parameter value close to the lower end of the default interval, where the price is flat in the parameter (mean jump size of
    Merton near 0: the price moves with its square; diffusion of HEM far below the volatility of its jumps)"""
    if fam == "MERTON":
        return float(10.0 ** rng.uniform(-2.6, -1.5))
    if fam == "HEM":
        return float(rng.uniform(0.004, 0.03))
    return float(a_ + (b_ - a_) * rng.uniform(0.01, 0.08))


def _calib(case, R):
    from rpylib.model import utils as U
    from rpylib.numerical.cosmethod import COSPricer
    from rpylib.numerical.closedform.cfblackscholes import CFBlackScholes
    from rpylib.product.product import Product
    from rpylib.product.underlying import Spot
    from rpylib.product.payoff import Vanilla, PayoffType

    rng = np.random.default_rng(case["seed"])
    fam = case["family"]
    spec, T = _box_spec(rng, fam)
    if case.get("short"):
        # days to weeks, little diffusion and large jumps: the density is narrow relative to the range of the cosine expansion
        T = W.r6(W._logu(rng, 0.002, 0.006))
        spec["params"]["sigma"] = 0.1
        if fam == "MERTON":
            spec["params"]["sigma_j"] = W.r6(rng.uniform(0.2, 0.25))
            spec["params"]["intensity"] = W.r6(rng.uniform(2.0, 5.0))
        else:
            spec["params"]["eta1"], spec["params"]["eta2"] = W.r6(rng.uniform(8, 12)), W.r6(rng.uniform(5, 8))
        R.hit("short_maturity_calibrations")
    model = W.build_model(spec)
    S = spec["spot"]
    conf = U.default_calibration[model.model_type]
    par, (lo, hi) = conf.parameter, conf.parameter_interval
    wit = {"case": case, "spec": spec, "T": T}
    cls = type(model)

    def price_with(value, strike, payoff_type=PayoffType.CALL):
        pr = copy.deepcopy(model.levy_model.parameters)
        setattr(pr, par, value)
        pr.initialisation()
        m2 = cls(spot=model.spot, r=model.r, d=model.d, parameters=pr)
        c = COSPricer(m2)
        f = c.call if payoff_type == PayoffType.CALL else c.put
        return float(np.asarray(f(np.array([strike]), T)).reshape(-1)[0])

    # narrow the search interval to the part of the default interval on which COS is accurate (C18 box)
    if fam == "CGMY":
        inner = (0.3, 1.5) if spec["params"]["y"] <= 1 else (0.3, 1.0)
    else:
        inner = {"HEM": (0.1, 0.4), "MERTON": (0.0, 0.15), "VG": (0.1, 0.4)}[fam]
    if case.get("short") and fam == "MERTON":
        inner = (0.0, 0.5)      # large mean jumps: together with the short maturity the cosine expansion needs its default number of terms
    mode = case["mode"]
    if mode == "generic":
        strike = S * float(rng.uniform(0.9, 1.1))
        ptype = PayoffType.PUT if rng.random() < 0.5 else PayoffType.CALL
        a_, b_ = inner
        target_value = float(rng.uniform(a_ + 0.1 * (b_ - a_), b_ - 0.1 * (b_ - a_)))
        if case.get("low"):
            target_value = _low_target(rng, fam, a_, b_)
            a_, b_ = (lo if lo > 0 else 1e-9), hi          # searched over the whole default interval
            R.hit("solutions_near_the_lower_end")
        if case.get("beyond"):
            # the user's interval stops short of the value that reprices the target
            target_value = float(rng.uniform(a_ + 0.55 * (b_ - a_), b_ - 0.05 * (b_ - a_)))
            b_ = float(a_ + rng.uniform(0.25, 0.5) * (b_ - a_))
        market = price_with(target_value, strike, ptype)
        fa, fb = price_with(a_, strike, ptype) - market, price_with(b_, strike, ptype) - market
        if case.get("beyond") and not (fa * fb > 0 and min(abs(fa), abs(fb)) > 1e-6 * S):
            R.skip("the reduced interval still brackets the target")
            return
        if not case.get("beyond") and not (fa * fb < 0):
            R.skip("no sign change over the interval")
            return
        product = Product(payoff_underlying=Spot(), payoff=Vanilla(strike=strike, payoff_type=ptype), maturity=T)
        snap = _snapshot(model)
        R.hit("parameter_calibrations")
        try:
            val = U.calibrate_model_parameter(model=model, parameter=par, parameter_interval=(a_, b_), product=product, market_price=market)
        except Exception as exc:  # noqa: BLE001
            if case.get("beyond"):
                R.hit("calibrations_without_solution_refused")
                if not _same_snapshot(snap, _snapshot(model)):
                    R.violation("calibration-modifies-its-input-model", f"{fam}: the input model changed during a calibrate_model_parameter call that raised", wit)
                R.nontrivial_case("beyond", case["seed"])
                return
            R.violation(f"calibrate_model_parameter-raises-{type(exc).__name__}", f"{fam}: calibrate_model_parameter({par}) raises {type(exc).__name__}: {exc} "
                        "although the prices at the interval ends bracket the market price", wit)
            return
        val = float(np.asarray(val).reshape(-1)[0])
        R.hit("repricing_checks")
        if case.get("beyond"):
            R.hit("calibrations_without_solution_answered")
        if not (a_ <= val <= b_):
            R.violation("calibrated-value-outside-interval" + ("-no-solution-inside" if case.get("beyond") else ""), f"{fam}: {par} = {val!r} outside [{a_}, {b_}]", wit)
        rep = price_with(val, strike, ptype)
        if not (abs(rep - market) <= REPRICE_TOL * S):
            R.violation("calibrated-model-does-not-reprice", f"{fam}: {par} = {val!r} reprices the target at {rep!r}, market {market!r}", wit)
        R.hit("input_untouched_checks")
        if not _same_snapshot(snap, _snapshot(model)):
            R.violation("calibration-modifies-its-input-model", f"{fam}: the input model changed during calibrate_model_parameter", wit)
        R.nontrivial_case(case["seed"])
        return
    # ATM call against a Black-Scholes volatility: choose the volatility from a parameter value inside the interval
    a_, b_ = inner
    target_value = float(rng.uniform(a_ + 0.15 * (b_ - a_), b_ - 0.15 * (b_ - a_)))
    if case.get("low"):
        target_value = _low_target(rng, fam, a_, b_)
        R.hit("solutions_near_the_lower_end")
    atm = price_with(target_value, S)
    bs = W.build_model({"family": "BS", "params": {"sigma": 0.2}, "exp": True, "spot": S, "r": spec["r"], "d": spec["d"]})
    from scipy.optimize import brentq

    def bs_price(sig):
        m = W.build_model({"family": "BS", "params": {"sigma": sig}, "exp": True, "spot": S, "r": spec["r"], "d": spec["d"]})
        return float(CFBlackScholes(m).call(strike=S, maturity=T))

    try:
        bs_sigma = brentq(lambda s_: bs_price(s_) - atm, 1e-3, 3.0, xtol=1e-14)
    except ValueError:
        R.skip("no Black-Scholes volatility for the target")
        return
    market = bs_price(bs_sigma)
    f_lo, f_hi = price_with(lo if lo > 0 else lo + 1e-9, S) - market, price_with(hi, S) - market
    if not (np.isfinite(f_lo) and np.isfinite(f_hi) and f_lo * f_hi < 0):
        R.skip("no sign change over the default interval")
        return
    snap = _snapshot(model)
    try:
        if mode == "atm":
            R.hit("parameter_calibrations")
            val = U.calibrate_model_parameter_to_atm_call(model=model, parameter=par, parameter_interval=(lo, hi), maturity=T, bs_sigma=bs_sigma)
            val = float(np.asarray(val).reshape(-1)[0])
            new_model = None
        else:
            R.hit("default_calibrations")
            new_model = U.run_default_calibration(model=model, maturity=T, bs_sigma=bs_sigma)
            val = float(np.asarray(getattr(new_model.levy_model.parameters, par)).reshape(-1)[0])
    except Exception as exc:  # noqa: BLE001
        R.violation(f"{'default-' if mode == 'default' else ''}calibration-raises-{type(exc).__name__}", f"{fam}: {mode} calibration of {par} raises "
                    f"{type(exc).__name__}: {exc} although the prices at the ends of the default interval bracket the target", wit)
        return
    R.hit("repricing_checks")
    if not (lo <= val <= hi):
        R.violation("calibrated-value-outside-interval", f"{fam}: {par} = {val!r} outside [{lo}, {hi}]", wit)
    rep = price_with(val, S)
    if not (abs(rep - market) <= REPRICE_TOL * S):
        R.violation("calibrated-model-does-not-reprice", f"{fam}: {par} = {val!r}: ATM call {rep!r}, Black-Scholes target {market!r} (vol {bs_sigma!r})", wit)
    if new_model is not None:
        if type(new_model) is not type(model):
            R.violation("default-calibration-returns-another-type", f"{type(new_model).__name__} for a {type(model).__name__}", wit)
        got = float(np.asarray(COSPricer(new_model).call(np.array([S]), T)).reshape(-1)[0])
        if not (abs(got - market) <= REPRICE_TOL * S):
            R.violation("default-calibration-model-does-not-reprice", f"{fam}: returned model prices the ATM call at {got!r}, target {market!r}", wit)
        if new_model.levy_model.parameters is model.levy_model.parameters:
            R.violation("default-calibration-aliases-the-input-parameters", f"{fam}: the returned model shares the parameter object of the input", wit)
    R.hit("input_untouched_checks")
    if not _same_snapshot(snap, _snapshot(model)):
        R.violation("calibration-modifies-its-input-model", f"{fam}: the input model changed during the {mode} calibration", wit)
    R.nontrivial_case(case["seed"])
    if case["seed"] % 8 == 0:
        R.sample({"family": fam, "mode": mode, "parameter": par, "calibrated": val, "bs_sigma": bs_sigma, "T": T})


# ---------------------------------------------------------------------------------------------------------------
def _behaviour(model, spec):
    """observable behaviour of a model on fixed meshes"""
    base = model.levy_model if spec.get("exp") else model
    nu = base.levy_triplet.nu
    xs = [-1.3, -0.2, -0.01, 0.003, 0.15, 0.9]
    out = [float(nu(x)) for x in xs]
    out += [float(nu.integrate(0.01, 0.7)), float(nu.integrate(-0.6, -0.02)), float(nu.integrate_against_x(0.02, 1.5)),
            float(nu.integrate_against_xx(-0.4, -0.01)), float(nu.integrate_against_xx(0.01, np.inf))]
    for u in (0.3, -2.0, 7.5):
        z = complex(base.levy_exponent(u))
        out += [z.real, z.imag]
    out += [float(base.levy_triplet.a), float(base.levy_triplet.sigma)]
    try:
        out.append(float(np.asarray(model.process_drift()).reshape(-1)[0]))
    except Exception:  # noqa: BLE001
        out.append(float("nan"))
    for n in (1, 2, 4):
        try:
            out.append(float(getattr(base.cumulant, f"cumulant{n}")(1.3)))
        except NotImplementedError:
            out.append(float("nan"))
    if spec.get("exp"):
        out += [float(model.omega), float(model.drift())]
    return np.array(out, dtype=float)


def _history(case, R):
    rng = np.random.default_rng(case["seed"])
    fam = case["family"]
    exp = bool(rng.integers(2)) or fam == "BS"
    start = W.gen_model_spec(rng, fam, exp=exp)
    final = W.gen_model_spec(rng, fam, exp=exp, branch=start.get("branch"))
    for k in ("spot", "r", "d"):
        if k in start:
            final[k] = start[k]
    m0 = W.build_model(start)
    params = (m0.levy_model if exp and fam != "BS" else m0).parameters
    wit = {"case": case, "start": start, "final": final}
    names = list(final["params"])
    if case.get("only"):
        for k in names:
            if k != case["only"]:
                final["params"][k] = start["params"][k]
        names = [case["only"]]
        R.hit("histories_moving_a_subset_of_the_parameters")
    elif case["seed"] % 5 < 2:
        # only some of the parameters move (the others keep the value they were constructed with and are never assigned)
        moved = [str(k) for k in rng.permutation(names)[: int(rng.integers(1, max(2, len(names))))]]
        for k in names:
            if k not in moved:
                final["params"][k] = start["params"][k]
        names = moved
        R.hit("histories_moving_a_subset_of_the_parameters")
    seq = []
    # a history of assignments: random intermediate values, re-assignments, then the final values in random order
    for _ in range(int(rng.integers(0, 6)) if not case.get("only") else 0):
        k = str(rng.choice(names))
        seq.append((k, W.gen_model_spec(rng, fam, exp=exp, branch=start.get("branch"))["params"][k]))
    for k in rng.permutation(names):
        seq.append((str(k), final["params"][str(k)]))
    for k, v in seq:
        try:
            setattr(params, k, v)
        except ValueError:
            R.violation("valid-assignment-refused", f"{fam}: assignment {k} = {v!r} raised ValueError", wit)
            return
        if rng.random() < 0.3:
            params.initialisation()
    params.initialisation()
    R.hit("history_rebuilds")
    try:
        if fam == "BS":
            rebuilt = type(m0)(spot=m0.spot, r=m0.r, d=m0.d, parameters=params)
        elif exp:
            rebuilt = type(m0)(spot=m0.spot, r=m0.r, d=m0.d, parameters=params)
        else:
            rebuilt = type(m0)(parameters=params)
        direct = W.build_model(final)
        b1, b2 = _behaviour(rebuilt, final), _behaviour(direct, final)
    except Exception as exc:  # noqa: BLE001
        R.violation("rebuild-after-history-raises", f"{fam}: {type(exc).__name__}: {exc}", wit)
        return
    bad = np.where(~(np.isclose(b1, b2, rtol=1e-13, atol=1e-300, equal_nan=True)))[0]
    if bad.size:
        R.violation(f"{fam}-model-after-assignment-history-differs", f"{fam}: a model rebuilt from parameters after {len(seq)} assignments + "
                    f"initialisation() differs from a directly constructed one on {bad.size} observables (first index {int(bad[0])}: "
                    f"{b1[bad[0]]!r} vs {b2[bad[0]]!r})", wit)
    # derived members of the parameter object itself
    dp = (direct.levy_model if exp and fam != "BS" else direct).parameters
    for k, v in dp.__dict__.items():
        if k.startswith("_") or k in ("variance",):
            got = params.__dict__.get(k)
            if not isinstance(v, (int, float, np.floating, np.integer)):
                continue          # (only the numeric derived members are compared)
            if got is None or not isinstance(got, (int, float, np.floating, np.integer)) or not np.isclose(float(got), float(v), rtol=1e-13, atol=0, equal_nan=True):
                R.violation(f"{fam}-derived-parameter-stale-{k.strip('_')}", f"{fam}: derived member {k} = {got!r} after the history, {v!r} on a fresh object", wit)
    if len(seq) >= 2 or case.get("only"):
        R.nontrivial_case(case["seed"])


# ---------------------------------------------------------------------------------------------------------------
def _constraints(case, R):
    from rpylib.model.levymodel.mixed.hem import HEMParameters
    from rpylib.model.levymodel.mixed.merton import MertonParameters
    from rpylib.model.levymodel.purejump.cgmy import CGMYParameters
    from rpylib.model.levymodel.purejump.variancegamma import VGParameters
    from rpylib.model.levymodel.mixed.blackscholes import BlackScholesParameters
    from rpylib.distribution.levycopula import ClaytonCopula

    rng = np.random.default_rng(case["seed"])
    table = [
        (lambda: HEMParameters(0.1, 0.6, 25.0, 40.0, 5.0), {"sigma": [-1e-9, -1.0], "p": [0.0, -0.3], "eta1": [0.0, -2.0], "eta2": [0.0, -1.0], "intensity": [-1e-12]}),
        (lambda: MertonParameters(0.1, 0.01, 0.05, 5.0), {"sigma": [-0.1], "mu_j": [-1e-6], "sigma_j": [0.0, -0.2], "intensity": [-3.0]}),
        (lambda: VGParameters(0.1, 0.2, -0.1), {"sigma": [-0.01]}),
        (lambda: CGMYParameters(1.0, 15.0, 20.0, 0.5), {"c": [0.0, -1.0], "g": [-1e-9], "m": [-2.0], "y": [2.0, 2.5]}),
        (lambda: BlackScholesParameters(0.2), {"sigma": [-0.2]}),
        (lambda: ClaytonCopula(0.7, 0.3), {"theta": [0.0, -1.0]}),
    ]
    for make, attrs in table:
        for name, bad_values in attrs.items():
            for bad in bad_values:
                obj = make()
                old = getattr(obj, name)
                R.hit("constraint_probes")
                try:
                    setattr(obj, name, bad)
                except ValueError:
                    if getattr(obj, name) != old:
                        R.violation("rejected-assignment-changes-the-value", f"{type(obj).__name__}.{name} = {bad!r} raised but the value is now {getattr(obj, name)!r}", None)
                    continue
                R.violation(f"constraint-not-enforced-{type(obj).__name__}-{name}", f"{type(obj).__name__}.{name} = {bad!r} was accepted", None)
            # a valid re-assignment is accepted
            obj = make()
            ok = abs(getattr(obj, name)) * float(rng.uniform(0.5, 1.5)) + (0 if name != "y" else -0.5)
            try:
                setattr(obj, name, ok)
            except ValueError:
                R.violation("valid-assignment-refused", f"{type(obj).__name__}.{name} = {ok!r} refused", None)
    # constructor enforces the constraints too
    for ctor, args in ((HEMParameters, (-0.1, 0.6, 25.0, 40.0, 5.0)), (CGMYParameters, (1.0, 15.0, 20.0, 2.0)), (MertonParameters, (0.1, 0.01, 0.0, 5.0))):
        R.hit("constraint_probes")
        try:
            ctor(*args)
            R.violation(f"constructor-accepts-invalid-{ctor.__name__}", f"{ctor.__name__}{args} accepted", None)
        except ValueError:
            pass
    R.nontrivial_case("constraints", case["seed"])
