"""C08 -- randomness discipline: seeded runs repeat; no two samples share random variates.

Three monitors (all on real engines, real processes, real worker pools):
  1. repeatability  -- the same seeded single-process run in two fresh interpreters, and twice in one process with the
                       global generators deliberately perturbed in between; stored sample arrays must be bit-identical;
  2. seed audit     -- wrappers on numpy.random.seed / random.seed logging the generator state installed by every seeding;
                       a seeding that re-installs a state from which variates were already drawn refutes the property;
  3. exactly-once   -- pre-drawn Brownian increments / jump counts are tagged (rv.c08_runs.TracingDeque) and every
                       consumption is logged (pid, row id) in an append-only file shared with the forked workers; a row id
                       consumed twice, or two bit-equal stored samples of a strictly monotone payoff, refute the property.
Every run happens in a subprocess with a time-out (a hanging pool is inconclusive, not a violation).
"""
from __future__ import annotations

import json
import os
import subprocess
import tempfile
from collections import Counter

import numpy as np

from .. import bootstrap

ID = "C08"
RULE = ("case = (engine in {standard, multilevel adaptive, multilevel fixed-level}, process in {Black-Scholes, HEM, Merton direct; "
        "1-d Markov chain / coupling, 2-d copula chain / copula coupling}, number of paths, number of worker processes in {1, 2, 4}, seed given or not, fixed-date or jump-time "
        "product) x monitor in {repeat-in-fresh-interpreters, repeat-in-process, seed audit, exactly-once}; non-trivial = run "
        "that stored >= 8 samples; distinct = distinct run specification x monitor")
ASSUMPTIONS = ["repeatability is only claimed (and checked) for single-process runs with a seed",
               "uniqueness of samples is checked on the Forward payoff (strictly monotone, continuous): bit-equal stored values mean shared variates",
               "each run is a subprocess with a 300 s time-out; a time-out is inconclusive"]
REQUIRED_COUNTERS = ["fresh_interpreter_repeats", "in_process_repeats", "seed_audits", "seedings_observed", "tagged_rows_consumed",
                     "multi_worker_runs", "duplicate_value_scans", "seedings_observed_across_processes", "uniform_variates_observed", "same_engine_repeats", "normal_variates_observed", "pre_drawn_brownian_rows_compared", "jump_counts_drawn_and_consumed"]
MIN_NONTRIVIAL = {"quick": 12, "thorough": 60}
SHARD_TIMEOUT = {"quick": 1500, "thorough": 7200}


def gen_cases(tier, seed):
    thorough = tier == "thorough"
    cases = []
    procs = ["bs", "hem", "chain"] + (["merton"] if thorough else [])
    k = 0
    for p in procs:
        for st in (False, True):
            base = {"engine": "standard", "process": p, "paths": 24 + 8 * (k % 3), "stochastic_dates": st, "seed": 1234 + seed + k}
            cases.append({"monitor": "repeat-fresh", "run": dict(base, workers=1)})
            cases.append({"monitor": "repeat-in-process", "run": dict(base, workers=1)})
            cases.append({"monitor": "seed-audit", "run": dict(base, workers=1)})
            cases.append({"monitor": "repeat-same-engine", "run": dict(base, workers=1)})
            if not st and p == "bs":
                # default number of processes (None: one worker per core) with a seed
                cases.append({"monitor": "exactly-once", "run": dict(base, workers=None, paths=64)})
            if not st:
                for w in ((1, 2, 4) if thorough or p == "bs" else (2,)):
                    cases.append({"monitor": "exactly-once", "run": dict(base, workers=w, paths=48)})
                cases.append({"monitor": "exactly-once", "run": dict(base, workers=2, paths=37, seed=None)})
            k += 1
    # a seed taken from a numpy array (numpy integer)
    cases.append({"monitor": "repeat-in-process", "run": {"engine": "standard", "process": "hem", "paths": 24, "stochastic_dates": False, "seed": 7 + seed, "seed_type": "numpy", "workers": 1}})
    cases.append({"monitor": "repeat-in-process", "run": {"engine": "mlmc", "process": "chain", "paths": 16, "stochastic_dates": True, "seed": 9 + seed, "seed_type": "numpy", "workers": 1, "rmse": 0.6}})
    # the seed 0 is a seed like any other
    cases.append({"monitor": "repeat-fresh", "run": {"engine": "standard", "process": "hem", "paths": 24, "stochastic_dates": False, "seed": 0, "workers": 1}})
    cases.append({"monitor": "repeat-in-process", "run": {"engine": "mlmc-fixed", "process": "chain", "paths": 16, "stochastic_dates": False, "seed": 0, "workers": 1, "rmse": 0.6}})
    for eng in ("mlmc-fixed", "mlmc"):
        for st in (False, True):
            base = {"engine": eng, "process": "chain", "paths": 20, "stochastic_dates": st, "seed": 4321 + seed, "rmse": 0.6}
            cases.append({"monitor": "repeat-fresh", "run": dict(base, workers=1)})
            cases.append({"monitor": "repeat-in-process", "run": dict(base, workers=1)})
            cases.append({"monitor": "seed-audit", "run": dict(base, workers=1)})
            cases.append({"monitor": "repeat-same-engine", "run": dict(base, workers=1)})
            if not st:
                cases.append({"monitor": "exactly-once", "run": dict(base, workers=1)})
                cases.append({"monitor": "exactly-once", "run": dict(base, workers=2)})
                if eng == "mlmc-fixed":
                    cases.append({"monitor": "exactly-once", "run": dict(base, workers=None, paths=12)})
    # every sampling method of the chain (they do not all draw from the same global generator)
    methods = ["ALIAS", "TABLE", "INVERSION", "BINARYSEARCHTREE", "HUFFMANNTREE"]
    for k3, m in enumerate(methods):
        eng = ["standard", "mlmc-fixed", "mlmc"][(k3 + seed) % 3] if not thorough else None
        for e in ([eng] if eng else ["standard", "mlmc-fixed", "mlmc"]):
            base = {"engine": e, "process": "chain", "method": m, "paths": 20, "stochastic_dates": bool((k3 + seed) % 2), "seed": 99 + seed + k3, "rmse": 0.6, "workers": 1}
            cases.append({"monitor": "repeat-fresh", "run": dict(base)})
            cases.append({"monitor": "repeat-in-process", "run": dict(base)})
    # no seed given, single process: nothing to repeat, but every sample still has its own variates (levels and passes included)
    for e in ("standard", "mlmc-fixed", "mlmc"):
        for st in (False, True):
            base = {"engine": e, "process": "chain", "paths": 20, "stochastic_dates": st, "seed": None, "rmse": 0.6, "workers": 1}
            cases.append({"monitor": "seed-audit", "run": dict(base)})
            if not st:
                cases.append({"monitor": "exactly-once", "run": dict(base)})
    # a product observed monthly (twelve intervals: a row of jump counts and of Brownian increments per path), both engines
    for e in ("standard", "mlmc-fixed"):
        cases.append({"monitor": "exactly-once", "run": {"engine": e, "process": "chain" if e != "standard" else "hem", "paths": 30, "stochastic_dates": False, "monthly": True,
                                                       "seed": 21 + seed, "rmse": 0.6, "workers": 1}})
    # more paths than any block size a pre-computation may use (single process, fixed dates: 70 000 rows drawn in one call)
    cases.append({"monitor": "exactly-once", "run": {"engine": "standard", "process": "hem", "paths": 70_000, "stochastic_dates": False, "seed": 11 + seed, "workers": 1}})
    # the seed 0 handed to a pool of workers
    for e in ("standard", "mlmc-fixed"):
        cases.append({"monitor": "exactly-once", "run": {"engine": e, "process": "chain", "paths": 24, "stochastic_dates": False, "seed": 0, "rmse": 0.6, "workers": 2}})
    # jump-time modes through a worker pool (nothing pre-drawn: the uniform and normal variates drawn by the workers are audited)
    for e in ("standard", "mlmc-fixed", "mlmc"):
        cases.append({"monitor": "exactly-once", "run": {"engine": e, "process": "chain", "paths": 24, "stochastic_dates": True, "seed": None, "rmse": 0.6, "workers": 2}})
        if thorough:
            cases.append({"monitor": "exactly-once", "run": {"engine": e, "process": "chain", "paths": 37, "stochastic_dates": True, "seed": 5 + seed, "rmse": 0.6, "workers": 4}})
    # copula chain (standard engine) and copula coupling (multilevel engine): pre-drawn rows of vector-valued increments
    for k2, (eng, st) in enumerate((("standard", False), ("standard", True), ("mlmc-fixed", False), ("mlmc", False)) if thorough else (("standard", False), ("mlmc", False))):
        base = {"engine": eng, "process": "copula", "paths": 24 if eng == "standard" else 16, "stochastic_dates": st, "seed": 777 + seed + k2, "rmse": 0.8}
        cases.append({"monitor": "repeat-fresh", "run": dict(base, workers=1)})
        cases.append({"monitor": "seed-audit", "run": dict(base, workers=1)})
        if not st:
            cases.append({"monitor": "exactly-once", "run": dict(base, workers=2, paths=30 if eng == "standard" else 16)})
            if thorough:
                cases.append({"monitor": "exactly-once", "run": dict(base, workers=1)})
                cases.append({"monitor": "exactly-once", "run": dict(base, workers=4, seed=None)})
    if thorough:
        # more path counts (different chunkings of the indices among the workers) and seeds
        extra = []
        for c in cases:
            if c["monitor"] == "exactly-once" and c["run"]["engine"] == "standard":
                for paths in (13, 101):
                    extra.append({"monitor": "exactly-once", "run": dict(c["run"], paths=paths)})
            if c["monitor"] in ("repeat-fresh", "seed-audit") and c["run"]["engine"] != "standard" and c["run"].get("seed") is not None:
                extra.append({"monitor": c["monitor"], "run": dict(c["run"], seed=c["run"]["seed"] + 17, paths=35)})
        cases += extra
    return cases


def _subprocess_run(spec, events=None):
    env = dict(os.environ)
    if events:
        env["RV_C08_EVENTS"] = events
    cmd = [bootstrap.PYTHON, "-m", "rv.c08_runs", json.dumps(dict(spec, trace=bool(events)))]
    try:
        out = subprocess.run(cmd, cwd=bootstrap.VERIF, env=env, capture_output=True, text=True, timeout=300)
    except subprocess.TimeoutExpired:
        return None, "timeout"
    line = next((ln for ln in out.stdout.splitlines() if ln.startswith("RESULT ")), None)
    if line is None:
        return None, (out.stderr or out.stdout)[-1500:]
    return json.loads(line[7:]), None


def _tag(run):
    return (f"{run['engine']}-{run['process']}{'-' + run['method'] if run.get('method') else ''}-{'jumptimes' if run['stochastic_dates'] else 'fixeddates'}"
            f"{'-unseeded' if run.get('seed') is None else ''}")


def run_case(case, R):
    R.evaluation()
    run, mon = case["run"], case["monitor"]
    wit = {"case": case}
    tag = _tag(run)
    R.klass(f"{mon}:{tag}:w{run['workers']}")
    nworkers = run["workers"] if run["workers"] is not None else (os.cpu_count() or 2)
    if mon == "repeat-fresh":
        a, err = _subprocess_run(run)
        b, err2 = _subprocess_run(run)
        if a is None or b is None:
            _fail(R, tag, err or err2, wit)
            return
        R.hit("fresh_interpreter_repeats")
        if a["digest"] != b["digest"]:
            first = _first_diff(a["levels"], b["levels"])
            R.violation(f"seeded-run-not-repeatable-{tag}", f"{tag}, seed {run['seed']}, single process: two runs in fresh interpreters store different "
                        f"samples (first difference at level {first[0]}, sample {first[1]}: {first[2]!r} vs {first[3]!r})", wit)
        if sum(a["n"]) >= 8:
            R.nontrivial_case(mon, run)
    elif mon == "repeat-in-process":
        from ..c08_runs import do_run

        try:
            a = do_run(run)
            np.random.seed(987654)
            np.random.normal(size=17)
            import random

            random.seed(55)
            random.random()
            b = do_run(run)
        except Exception as exc:  # noqa: BLE001
            _fail(R, tag, f"{type(exc).__name__}: {exc}", wit)
            return
        R.hit("in_process_repeats")
        if a["digest"] != b["digest"]:
            first = _first_diff(a["levels"], b["levels"])
            R.violation(f"seeded-run-depends-on-earlier-generator-state-{tag}", f"{tag}, seed {run['seed']}: the same seeded run gives different samples after "
                        f"the global generators were used in between (level {first[0]}, sample {first[1]}: {first[2]!r} vs {first[3]!r})", wit)
        if sum(len(x) for x in a["levels"]) >= 8:
            R.nontrivial_case(mon, run)
    elif mon == "repeat-same-engine":
        from ..c08_runs import do_run

        try:
            a = do_run(dict(run, reprice=True))
        except Exception as exc:  # noqa: BLE001
            _fail(R, tag, f"{type(exc).__name__}: {exc}", wit)
            return
        R.hit("same_engine_repeats")
        if a["digest"] != a["digest2"]:
            first = _first_diff(a["levels"], a["levels2"])
            R.violation(f"seeded-run-not-repeatable-on-the-same-engine-{tag}", f"{tag}, seed {run['seed']}, single process: pricing twice with the same engine and "
                        f"configuration objects gives different samples (level {first[0]}, sample {first[1]}: {first[2]!r} vs {first[3]!r})", wit)
        if sum(len(x) for x in a["levels"]) >= 8:
            R.nontrivial_case(mon, run)
    elif mon == "seed-audit":
        from ..c08_runs import do_run, SeedAudit

        audit = SeedAudit()
        audit.install()
        try:
            out = do_run(run)
        except Exception as exc:  # noqa: BLE001
            audit.restore()
            _fail(R, tag, f"{type(exc).__name__}: {exc}", wit)
            return
        audit.restore()
        R.hit("seed_audits")
        R.hit("seedings_observed", len(audit.events))
        reuse = audit.reuse()
        if reuse:
            R.violation(f"generator-reseeded-to-a-state-that-already-produced-samples-{run['engine']}", f"{tag}: {len(reuse)} seeding(s) put a generator back "
                        f"into a state installed earlier in the same run after variates had been drawn from it (e.g. {reuse[0]}; "
                        f"{len(audit.events)} seedings in the run)", wit)
        # black-box: equal stored samples across levels / passes
        _dups(R, out["fine"], tag, run, wit)
        if sum(len(x) for x in out["levels"]) >= 8:
            R.nontrivial_case(mon, run)
    else:
        fd, ev = tempfile.mkstemp(prefix="c08-", suffix=".events", dir=os.path.join(bootstrap.VERIF, ".scratch") if os.path.isdir(os.path.join(bootstrap.VERIF, ".scratch")) else None)
        os.close(fd)
        try:
            out, err = _subprocess_run(run, events=ev)
            if out is None:
                _fail(R, tag, err, wit)
                return
            events = [json.loads(ln) for ln in open(ev) if ln.strip()]
        finally:
            try:
                os.remove(ev)
            except OSError:
                pass
        if nworkers > 1:
            R.hit("multi_worker_runs")
        for e in events:
            if e["kind"] == "predraw" and e.get("rows") == "brownian":
                R.hit("pre_drawn_brownian_rows_compared", e["n"])
                if e.get("duplicate_rows"):
                    R.violation(f"pre-drawn-brownian-rows-with-identical-content-{run['engine']}", f"{tag}: one pre-computation of {e['n']} rows of Brownian increments "
                                f"holds {e['duplicate_rows']} row(s) equal to an earlier row (e.g. rows {e.get('example')}): the paths that consume them share their variates", wit)
                    break
        # jump counts: a process cannot consume more of them than it drew
        for pid_ in {e["pid"] for e in events if e["kind"] in ("poisson", "poisson_draw")}:
            drawn_p = sum(e["n"] for e in events if e["kind"] == "poisson_draw" and e["pid"] == pid_)
            used_p = sum(e.get("len", 0) for e in events if e["kind"] == "poisson" and e["pid"] == pid_)
            R.hit("jump_counts_drawn_and_consumed", used_p)
            if used_p > drawn_p and nworkers == 1:
                R.violation(f"more-jump-counts-consumed-than-drawn-{run['engine']}", f"{tag}: process {pid_} consumed {used_p} pre-drawn jump counts but drew only {drawn_p} "
                            "Poisson variates: paths share their jump counts", wit)
                break
        events = [e for e in events if e["kind"] != "poisson_draw"]
        seedings = [e for e in events if e["kind"] == "seeding"]
        uniforms = [e for e in events if e["kind"] == "uniform"]
        normals = [e for e in events if e["kind"] == "normal"]
        _state_audit(R, events, tag, run, wit)
        events = [e for e in events if e["kind"] not in ("seeding", "uniform", "normal", "state", "predraw")]
        mode_u = "single-process" if run["workers"] == 1 else "worker-pool"
        if run.get("stochastic_dates"):
            # jump-time modes: nothing is pre-drawn, every normal variate drawn is consumed by the path that draws it
            drawn = Counter(v for e in normals for v in e["vals"])
            R.hit("normal_variates_observed", sum(drawn.values()))
            twice_n = [v for v, c in drawn.items() if c > 1]
            if twice_n:
                R.violation(f"normal-variates-drawn-more-than-once-{mode_u}-{run['engine']}", f"{tag}, {run['workers']} process(es): {len(twice_n)} of the "
                            f"{len(drawn)} distinct normal variates drawn during the run were drawn more than once (e.g. {float.fromhex(twice_n[0])!r}, "
                            f"{drawn[twice_n[0]]} times; drawn by {len({e['pid'] for e in normals})} process(es))", wit)
        handed = Counter(v for e in uniforms for v in e["vals"])
        R.hit("uniform_variates_observed", sum(handed.values()))
        twice = [v for v, c in handed.items() if c > 1]
        if twice:
            mode_u = "single-process" if run["workers"] == 1 else "worker-pool"
            R.violation(f"uniform-variates-handed-out-more-than-once-{mode_u}-{run['engine']}", f"{tag}, {run['workers']} process(es): {len(twice)} of the "
                        f"{len(handed)} distinct uniform variates returned by Uniform.sample were returned more than once (e.g. {float.fromhex(twice[0])!r}, "
                        f"{handed[twice[0]]} times; {len({e['pid'] for e in uniforms})} process(es))", wit)
        R.hit("seedings_observed_across_processes", len(seedings))
        _cross_process_seed_audit(R, seedings, tag, run, wit)
        R.hit("tagged_rows_consumed", len(events))
        cnt = Counter((e["kind"], e["uid"]) for e in events)
        dup = {k: c for k, c in cnt.items() if c > 1}
        if dup:
            (kind, uid), c = max(dup.items(), key=lambda kv: kv[1])
            pids = len({e["pid"] for e in events})
            mode = "single-process" if run["workers"] == 1 else "worker-pool"
            R.violation(f"pre-drawn-variates-consumed-more-than-once-{mode}-{run['engine']}", f"{tag}, {run['workers']} process(es), {run['paths']} paths: "
                        f"{len(events)} consumptions of only {len(cnt)} distinct pre-drawn rows ({kind} row {uid} consumed {c} times, by {pids} process(es))", wit)
        _dups(R, out["fine"], tag, run, wit)
        if sum(out["n"]) >= 8:
            R.nontrivial_case(mon, run)
    if case["monitor"] == "exactly-once" and run["workers"] == 2 and run["process"] == "bs":
        R.sample({"monitor": mon, "run": run})


def _dups(R, fine_levels, tag, run, wit):
    """bit-equal stored payoffs of the fine process inside one level (every model used here has a Brownian component and the Forward
    payoff is strictly monotone, so two samples are bit-equal only if they were generated from the same variates)"""
    R.hit("duplicate_value_scans")
    mode = "single-process" if run["workers"] == 1 else "worker-pool"
    for l, a in enumerate(fine_levels):
        vals = np.asarray(a, dtype=float).reshape(-1)
        cnt = Counter(vals.tolist())
        dup = [v for v, c in cnt.items() if c > 1]
        if dup:
            R.violation(f"bit-equal-samples-{mode}-{run['engine']}", f"{tag}, {run['workers']} process(es), level {l}: {len(vals)} stored samples contain only "
                        f"{len(cnt)} distinct values (e.g. {dup[0]!r} appears {cnt[dup[0]]} times)", wit)
            return


def _state_audit(R, events, tag, run, wit):
    """numpy.random.set_state putting the generator of a process back into a state recorded earlier in the run (by get_state or by a
    seeding) after the generator has moved on: if pre-drawn rows were drawn in between and are consumed by samples, the variates drawn
    after the restore come from the stream that already produced those rows"""
    by_pid = {}
    for i, e in enumerate(events):
        by_pid.setdefault(e["pid"], []).append((i, e))
    consumed_calls = {".".join(str(e.get("uid")).split(".")[:2]) for e in events if e["kind"] in ("brownian", "poisson") and e.get("uid")}
    for pid, evs in by_pid.items():
        known = {}          # digest -> position of the event that recorded it
        for pos, (i, e) in enumerate(evs):
            if e["kind"] == "state" and e["op"] == "get":
                known.setdefault(e["after"], pos)
            elif e["kind"] == "seeding" and e.get("gen") == "numpy":
                known.setdefault(e["after"], pos)
            elif e["kind"] == "state" and e["op"] == "set":
                R.hit("generator_state_restores_observed")
                if e["after"] in known and e["before"] != e["after"]:
                    between = [x for _, x in evs[known[e["after"]]:pos] if x["kind"] == "predraw" and x["n"] > 0]
                    used = [x for x in between if x["call"] in consumed_calls]
                    if used:
                        R.violation(f"generator-restored-to-a-state-that-already-produced-consumed-variates-{run['engine']}", f"{tag}: numpy.random.set_state put the "
                                    f"generator of process {pid} back into a state recorded earlier in the run; {sum(x['n'] for x in used)} pre-drawn row(s) drawn in "
                                    "between are consumed by samples, and the variates drawn after the restore repeat the stream that produced them", wit)
                        return


def _cross_process_seed_audit(R, seedings, tag, run, wit):
    """the same generator state installed more than once in a run (by any process): the samples drawn after the two seedings share
    their variates.  A re-seeding to the very state the generator is already in (nothing drawn in between) is harmless and ignored."""
    for gen in ("numpy", "random"):
        seen = {}
        for i, e in enumerate(x for x in seedings if x["gen"] == gen):
            if e["after"] in seen:
                first = seen[e["after"]]
                if first["pid"] == e["pid"] and e["before"] == e["after"]:
                    continue
                mode = "single-process" if run["workers"] == 1 else "worker-pool"
                R.violation(f"generator-reseeded-to-a-state-that-already-produced-samples-{run['engine']}-{mode}", f"{tag}, {run['workers']} process(es): the {gen} "
                            f"generator was put into the same state twice during one run (seeding number {i}, pid {e['pid']}; first by pid {first['pid']}; "
                            f"{len(seedings)} seedings recorded in {len({x['pid'] for x in seedings})} process(es))", wit)
                return
            seen[e["after"]] = e


def _first_diff(la, lb):
    for l, (a, b) in enumerate(zip(la, lb)):
        for i, (x, y) in enumerate(zip(a, b)):
            if x != y:
                return l, i, x, y
        if len(a) != len(b):
            return l, min(len(a), len(b)), len(a), len(b)
    return -1, -1, None, None


def _fail(R, tag, err, wit):
    if err == "timeout":
        R.skip("run timed out (inconclusive)")
        R.error("watchdog: run timed out", str(wit))
    else:
        R.violation(f"run-raises-{tag}", f"{tag}: the pricing run failed: {str(err)[-600:]}", wit)
