"""C17 -- payoffs and underlyings are pure functions of the path obeying static identities.

Monitor: every Underlying / Payoff class evaluated through Product.update / underlying_value / __call__ on
generated paths, time grids, strikes, barriers, thresholds; the same path evaluated on a fresh product and on a
long-lived one after generated histories (other paths, knock-in paths, representation switches).
Oracle: harness-side scans of the path (extremes, first jump below a threshold, barrier crossing) and algebraic identities.
"""
from __future__ import annotations

import math

import numpy as np

ID = "C17"
RULE = ("case = (seed): a random spot path (3..40 dates, d = 1..3), strikes / barriers / thresholds around it and a generated "
        "history of 1..6 earlier evaluations (other paths, paths that knock a barrier, LOG<->IDENTITY switches); per case every "
        "underlying class x compatible payoff class is evaluated fresh and after the history, in both representations; static "
        "identities are checked on the same path; non-trivial = path on which at least one option payoff is non-zero; distinct = "
        "distinct seed")
ASSUMPTIONS = ["LookBack is excluded (its process() raises by design)",
               "purity and identities are exact or 1e-12 relative (pure floating-point formulas)"]
REQUIRED_COUNTERS = ["purity_checks", "representation_equivalence", "parity_identities", "barrier_identities", "average_bounds", "path_manager_pairs", "control_variate_products_on_paths", "shared_object_evaluations", "control_variates_with_their_own_parameters",
                     "default_time_checks", "nth_default_monotone", "notional_linearity"]
MIN_NONTRIVIAL = {"quick": 100, "thorough": 2000}
THOROUGH_ROUNDS = 15      # the thorough tier runs the generators this many times (different seeds)


def gen_cases(tier, seed):
    rng = np.random.default_rng(seed + 1700)
    n = 160 if tier == "quick" else 4000
    return [{"seed": int(rng.integers(2**31)), "d": int(1 + (i % 3)), "n": int(rng.integers(3, 41))} for i in range(n)]


def _paths(rng, d, n):
    T = float(rng.uniform(0.1, 3.0))
    times = np.sort(np.concatenate([[0.0, T], rng.uniform(0, T, size=n - 2)]))
    times = np.unique(times)
    n = times.size
    s0 = np.exp(rng.uniform(-1, 3, size=d))
    log_jump_inc = np.where(rng.random((d, n)) < 0.4, rng.normal(-0.05, 0.35, size=(d, n)), 0.0)
    log_jump_inc[:, 0] = 0.0
    log_jump = np.cumsum(log_jump_inc, axis=1)
    diff = np.cumsum(rng.normal(0, 0.1, size=(d, n)), axis=1)
    diff[:, 0] = 0.0
    logS = np.log(s0)[:, None] + diff + log_jump
    return times, logS, log_jump, s0


def _products(d, S_T, s0, rng):
    """list of (name, factory) building a fresh Product each call; parameters placed around the terminal values"""
    from rpylib.product.product import Product
    from rpylib.product import payoff as P, underlying as U

    k = float(np.mean(S_T) * rng.uniform(0.6, 1.4))
    k2, k3 = k * 1.15, k * 1.4
    ks = [k * f for f in (0.7, 1.0, 1.3)]
    T = 1.0
    out = []

    def add(name, und, pay, notional=1.0):
        out.append((name, lambda und=und, pay=pay, notional=notional: Product(payoff_underlying=und(), payoff=pay(), maturity=T, notional=notional)))

    if d == 1:
        unds = {"Spot": U.Spot, "Libors": U.Libors, "Asian": lambda: U.Asian(U.Discretisation.MONTHLY)}
    else:
        unds = {"Mean": U.Mean, "MaxPerf": lambda: U.MaximumOfPerformances(list(s0)), "NthSpot": lambda: U.NthSpot(int(rng.integers(1, d + 1)) if False else 1)}
    scale = 1.0
    for un, uf in unds.items():
        kk = k if un not in ("MaxPerf",) else float(np.max(S_T / s0) * 0.9)
        add(f"{un}/Forward", uf, lambda kk=kk: P.Forward(strike=kk))
        add(f"{un}/Call", uf, lambda kk=kk: P.Vanilla(strike=kk, payoff_type=P.PayoffType.CALL))
        add(f"{un}/Put", uf, lambda kk=kk: P.Vanilla(strike=kk, payoff_type=P.PayoffType.PUT), notional=2.5)
        add(f"{un}/CallSpread", uf, lambda kk=kk: P.CallSpread(strike1=kk, strike2=kk * 1.2))
        add(f"{un}/Butterfly", uf, lambda kk=kk: P.Butterfly(strike1=kk * 0.8, strike2=kk, strike3=kk * 1.3))
        add(f"{un}/DigitalCall", uf, lambda kk=kk: P.Digital(strike=kk, payoff_type=P.PayoffType.CALL))
        add(f"{un}/DigitalPut", uf, lambda kk=kk: P.Digital(strike=kk, payoff_type=P.PayoffType.PUT))
        add(f"{un}/OnTheFly", uf, lambda: P.PayoffOnTheFly(lambda x: float(np.sum(np.square(x)))))
        add(f"{un}/FixedCoupon", uf, lambda: P.FixedCoupon(coupon=0.03))
    if d == 1:
        for bt in (P.BarrierType.DOWN_AND_IN, P.BarrierType.UP_AND_OUT):
            lvl = float(S_T[0] * rng.uniform(0.8, 1.2))
            add(f"Spot/Barrier[{bt.name}]", U.Spot, lambda bt=bt, lvl=lvl: P.Barrier(strike=k, payoff_type=P.PayoffType.CALL, barrier_type=bt, barrier=lvl))
        add("Spot/CallVector", U.Spot, lambda: P.Vanilla(strike=np.array(ks), payoff_type=P.PayoffType.CALL))
        add("LogSpot/Forward", U.LogSpot, lambda: P.Forward(strike=math.log(k)))
        lv1 = -float(rng.choice([0.05, 0.2, 0.5, 0.9]))
        add("DefaultTime/OnTheFly", lambda: U.DefaultTime(lv1), lambda: P.PayoffOnTheFly(lambda t: t))
        add("DefaultTime/CDS", lambda: U.DefaultTime(lv1), lambda: P.CDS(recovery_rate=0.4, spread=0.02, maturity=T, discounting=lambda t: math.exp(-0.03 * t)))
    else:
        add("Performances/Rainbow", lambda: U.Performances(list(s0)), lambda: P.Rainbow(weights=list(np.linspace(1, 2, d) / np.sum(np.linspace(1, 2, d))), strike=1.0, payoff_type=P.PayoffType.CALL))
        thr = list(S_T * rng.uniform(0.7, 1.3, size=d))
        add("Indicators/OnTheFly", lambda: U.Indicators(thr), lambda: P.PayoffOnTheFly(lambda x: float(np.sum(x))))
        # rate payoffs on the vector of terminal values (pure functions of it)
        dl = np.full(d, 0.5)
        r0 = np.asarray(s0, dtype=float) / (np.max(s0) * 10.0)
        rates_scale = 1.0 / (np.max(s0) * 10.0)
        add("Libors/Bond", U.Libors, lambda: P.Bond(underlying_rates=r0, deltas=dl), notional=rates_scale)
        add("Libors/Cap", U.Libors, lambda: P.Cap(underlying_rates=r0, deltas=dl, strike=float(np.mean(S_T))))
        add("Libors/Ratchet", U.Libors, lambda: P.Ratchet(deltas=dl, funding_gearing=0.8, funding_margin=0.01, structured_spread=0.02,
                                                          structured_increment=0.05, first_rate=float(S_T[0])))
        add("Libors/SwaptionPayer", U.Libors, lambda: P.Swaption(underlying_rates=r0, deltas=dl, strike=float(np.mean(S_T)), swaption_type=P.SwaptionType.PAYER))
        add("Libors/SwaptionReceiver", U.Libors, lambda: P.Swaption(underlying_rates=r0, deltas=dl, strike=float(np.mean(S_T)), swaption_type=P.SwaptionType.RECEIVER))
        # default times of several names: a name that defaulted on an earlier path must not be remembered on the next one
        lv = [-float(rng.choice([0.05, 0.2, 0.5, 0.9])) for _ in range(d)]
        for nth in range(1, d + 1):
            add(f"NthDefaultTimes[{nth}]/OnTheFly", lambda nth=nth: U.NthDefaultTimes(lv, nth), lambda: P.PayoffOnTheFly(lambda t: t))
        add("DefaultTimeNthUnderlying/OnTheFly", lambda: U.DefaultTimeNthUnderlying(lv, d), lambda: P.PayoffOnTheFly(lambda t: t))
    return out


def _eval(prod, rep, times, path_id, jump_id):
    """evaluate a product on the path given in identity values; feeds the representation the product is updated to"""
    from rpylib.process.process import ProcessRepresentation as PR

    prod.update(rep)
    if rep == PR.LOG:
        uv = prod.underlying_value(times, np.log(path_id), np.log(jump_id))
    else:
        uv = prod.underlying_value(times, path_id, jump_id)
    return np.asarray(prod(uv), dtype=float)


def run_case(case, R):
    from rpylib.process.process import ProcessRepresentation as PR
    from rpylib.product.product import Product
    from rpylib.product import payoff as P, underlying as U

    R.evaluation()
    rng = np.random.default_rng(case["seed"])
    d, n = case["d"], case["n"]
    times, logS, logJ, s0 = _paths(rng, d, n)
    S, J = np.exp(logS), np.exp(logJ)
    if d == 1:
        S1, J1 = S[0], J[0]
    else:
        S1, J1 = S, J
    S_T = S[:, -1]
    wit = {"case": case}
    nonzero = False
    other = [_paths(np.random.default_rng(case["seed"] + 1 + j), d, n) for j in range(3)]

    def history(prod, hrng):
        """a generated history of earlier evaluations on the SAME product object"""
        for _ in range(int(hrng.integers(1, 7))):
            t2, lS2, lJ2, _ = other[int(hrng.integers(3))]
            if hrng.random() < 0.3:      # a wild path (crosses any barrier)
                lS2 = lS2 + np.linspace(0, 1, lS2.shape[1]) * hrng.choice([-3.0, 3.0])
            rep = PR.LOG if hrng.random() < 0.5 else PR.IDENDITY
            S2, J2 = np.exp(lS2), np.exp(lJ2)
            try:
                _eval(prod, rep, t2, S2[0] if d == 1 else S2, J2[0] if d == 1 else J2)
            except Exception:  # noqa: BLE001  (judged below on the fresh product)
                pass

    # ---- purity + representation equivalence for every (underlying, payoff) ---------------------------------------------------
    for name, make in _products(d, S_T, s0, rng):
        und_name = name.split("/")[0]
        vals = {}
        for rep in (PR.IDENDITY, PR.LOG):
            try:
                fresh = _eval(make(), rep, times, S1, J1)
            except NotImplementedError:
                R.skip(f"representation-not-implemented:{und_name}")
                continue
            except Exception as exc:  # noqa: BLE001
                R.violation(f"{und_name}-evaluation-raises", f"{name} ({rep.name}): evaluation of a fresh product raises {type(exc).__name__}: {exc}", wit)
                continue
            vals[rep] = fresh
            used = make()
            history(used, np.random.default_rng(case["seed"] + 77))
            try:
                again = _eval(used, rep, times, S1, J1)
            except Exception as exc:  # noqa: BLE001
                R.violation(f"{und_name}-evaluation-raises-after-history", f"{name} ({rep.name}): raises after a history: {type(exc).__name__}: {exc}", wit)
                continue
            R.hit("purity_checks")
            if not np.allclose(again, fresh, rtol=1e-12, atol=0, equal_nan=True):
                kind = "representation-switch" if und_name not in ("x",) else ""
                R.violation(f"{und_name}-value-depends-on-history", f"{name} evaluated in {rep.name}: {fresh.tolist()} on a fresh product but "
                            f"{again.tolist()} on a product that evaluated other paths / representations before", wit)
            if np.any(fresh != 0):
                nonzero = True
        # two products built on the SAME underlying and payoff objects (a product and its control variate, two notionals of one trade), updated
        # and evaluated in turn in either representation: every evaluation is the value of that product on that path
        if len(vals) == 2 and case["seed"] % 2 == 0:
            pa = make()
            pb = Product(payoff_underlying=pa.payoff_underlying, payoff=pa.payoff, maturity=pa.maturity, notional=3.0 * pa.notional)
            # ... and a third product of the same classes built on its own objects (nothing is shared between two products a user builds
            # separately: what one of them is updated to does not reach the other)
            pc = make()
            hr = np.random.default_rng(case["seed"] + 5)
            seq = [(int(hr.integers(3)), PR.LOG if hr.random() < 0.5 else PR.IDENDITY) for _ in range(9)]
            seq += [(0, PR.LOG), (1, PR.LOG), (0, PR.IDENDITY), (1, PR.LOG), (0, PR.IDENDITY), (1, PR.IDENDITY)]
            seq += [(2, PR.IDENDITY), (0, PR.LOG), (2, PR.IDENDITY), (2, PR.LOG), (0, PR.IDENDITY), (2, PR.LOG)]
            for which, rep in seq:
                if which == 2:
                    # the separate product is updated once to its representation and then only evaluated (another product switching in between)
                    try:
                        if getattr(pc, "_rv_rep", None) != rep:
                            pc.update(rep)
                            pc._rv_rep = rep
                        uv_c = pc.underlying_value(times, np.log(S1) if rep == PR.LOG else S1, np.log(J1) if rep == PR.LOG else J1)
                        got_c = np.asarray(pc(uv_c), dtype=float)
                    except Exception as exc:  # noqa: BLE001
                        R.violation(f"{und_name}-evaluation-raises-separate-products", f"{name} ({rep.name}): {type(exc).__name__}: {exc}", wit)
                        break
                    R.hit("shared_object_evaluations")
                    if not np.allclose(got_c, vals[rep], rtol=1e-10, atol=1e-12, equal_nan=True):
                        R.violation(f"{und_name}-value-depends-on-another-product-of-the-same-class", f"{name}: a product built on its own objects, updated to {rep.name}, gives "
                                    f"{got_c.tolist()} after other products of the same classes were updated to other representations; alone it gives {vals[rep].tolist()}", wit)
                        break
                    continue
                prod_ = pb if which else pa
                try:
                    got_s = _eval(prod_, rep, times, S1, J1)
                except Exception as exc:  # noqa: BLE001
                    R.violation(f"{und_name}-evaluation-raises-shared-objects", f"{name} ({rep.name}): {type(exc).__name__}: {exc}", wit)
                    break
                R.hit("shared_object_evaluations")
                want_s = vals[rep] * (3.0 if which else 1.0)
                if not np.allclose(got_s, want_s, rtol=1e-10, atol=1e-12, equal_nan=True):
                    R.violation(f"{und_name}-value-depends-on-the-products-sharing-its-objects", f"{name}: two products share their underlying and payoff objects; after the "
                                f"sequence of (product, representation) updates {[(w, r.name) for w, r in seq[:seq.index((which, rep)) + 1]][-5:]} product {'B' if which else 'A'} "
                                f"evaluated in {rep.name} gives {got_s.tolist()}, alone it gives {want_s.tolist()}", wit)
                    break
        if len(vals) == 2:
            R.hit("representation_equivalence")
            if not np.allclose(vals[PR.IDENDITY], vals[PR.LOG], rtol=1e-10, atol=1e-12):
                if "Barrier" in name:
                    und_name = "Barrier-payoff"
                R.violation(f"{und_name}-identity-vs-log-representation", f"{name}: value {vals[PR.IDENDITY].tolist()} from the spot path but "
                            f"{vals[PR.LOG].tolist()} from its logarithm", wit)
    # ---- static identities on the terminal value --------------------------------------------------------------------------------
    x = float(S_T[0])
    k = x * float(rng.uniform(0.5, 1.5))
    if rng.random() < 0.1:
        k = x
    call = P.Vanilla(strike=k, payoff_type=P.PayoffType.CALL)(x)
    put = P.Vanilla(strike=k, payoff_type=P.PayoffType.PUT)(x)
    fwd = P.Forward(strike=k)(x)
    R.hit("parity_identities")
    if not (abs(call - put - fwd) <= 1e-12 * (abs(x) + abs(k))):
        R.violation("call-minus-put-not-forward", f"call - put = {call - put!r}, forward = {fwd!r} (S = {x}, K = {k})", wit)
    k1, k2, k3 = sorted(x * rng.uniform(0.5, 1.5, size=3))
    if k1 < k2 < k3:
        c1, c2, c3 = (float(P.Vanilla(strike=kk, payoff_type=P.PayoffType.CALL)(x)) for kk in (k1, k2, k3))
        cs = float(P.CallSpread(strike1=k1, strike2=k2)(x))
        bf = float(P.Butterfly(strike1=k1, strike2=k2, strike3=k3)(x))
        R.hit("parity_identities")
        if not (abs(cs - (c1 - c2)) <= 1e-12 * x and cs >= 0):
            R.violation("call-spread-identity", f"call spread {cs!r} vs c(K1) - c(K2) = {c1 - c2!r} (S = {x}, K = {k1},{k2})", wit)
        if not (abs(bf - (c1 - 2 * c2 + c3)) <= 1e-12 * x):
            R.violation("butterfly-identity", f"butterfly {bf!r} vs call combination {c1 - 2 * c2 + c3!r}", wit)
        # the library's butterfly (weights 1,-2,1) is non-negative only for symmetric strikes: checked there
        ks = k2 - (k3 - k2)
        if ks > 0:
            bs = float(P.Butterfly(strike1=ks, strike2=k2, strike3=k3)(x))
            if bs < -1e-12 * x:
                R.violation("butterfly-negative", f"symmetric butterfly {bs!r} < 0 (S = {x})", wit)
    dc = P.Digital(strike=k, payoff_type=P.PayoffType.CALL)(x)
    dp = P.Digital(strike=k, payoff_type=P.PayoffType.PUT)(x)
    R.hit("parity_identities")
    if dc + dp != 1.0 or dc not in (0.0, 1.0):
        R.violation("digital-call-plus-put-not-one", f"digital call {dc!r} + digital put {dp!r} (S = {x}, K = {k})", wit)
    # ---- barriers: knock-in + knock-out = vanilla, event = harness scan ------------------------------------------------------------
    path1 = S[0]
    lvl = float(rng.choice([np.min(path1), np.max(path1), np.quantile(path1, rng.uniform(0, 1))]) * rng.choice([1.0, 1.0, 0.97, 1.03]))
    for pt in (P.PayoffType.CALL, P.PayoffType.PUT):
        for (tin, tout, down) in ((P.BarrierType.DOWN_AND_IN, P.BarrierType.DOWN_AND_OUT, True), (P.BarrierType.UP_AND_IN, P.BarrierType.UP_AND_OUT, False)):
            vals = []
            for bt in (tin, tout):
                pr = Product(payoff_underlying=U.Spot(), payoff=P.Barrier(strike=k, payoff_type=pt, barrier_type=bt, barrier=lvl), maturity=1.0)
                # a history with a path that certainly knocks, then our path
                pr.underlying_value(times, path1 * (0.01 if down else 100.0), J[0])
                pr(float(path1[-1]))
                uv = pr.underlying_value(times, path1, J[0])
                vals.append(float(pr(uv)))
            van = float(P.Vanilla(strike=k, payoff_type=pt)(float(path1[-1])))
            crossed = bool(np.any(path1 < lvl)) if down else bool(np.any(path1 > lvl))
            R.hit("barrier_identities")
            if not (abs(vals[0] + vals[1] - van) <= 1e-12 * (1 + van)):
                R.violation("knock-in-plus-knock-out-not-vanilla", f"knock-in {vals[0]!r} + knock-out {vals[1]!r} != vanilla {van!r}", wit)
            want_in = van if crossed else 0.0
            if not (abs(vals[0] - want_in) <= 1e-12 * (1 + van)):
                R.violation("barrier-event-depends-on-earlier-paths", f"{'down' if down else 'up'}-and-in on a path that "
                            f"{'crosses' if crossed else 'never crosses'} the barrier {lvl!r} pays {vals[0]!r} (vanilla {van!r}) after an earlier "
                            "path of the same product had knocked", wit)
    # ---- the multilevel path manager evaluates the product on the fine and on the coarse path of a coupled pair: each value is the value
    #      of the product on that path alone (a knock event of one path must not leak into the other)
    from rpylib.montecarlo.path import MLMCPath, StochasticJumpPath
    from rpylib.product.product import NoControlVariates

    coarse_path = path1 * float(rng.choice([0.6, 0.85, 1.2, 1.6]))
    for bt in (P.BarrierType.DOWN_AND_IN, P.BarrierType.DOWN_AND_OUT, P.BarrierType.UP_AND_IN, P.BarrierType.UP_AND_OUT):
        def mk(bt=bt):
            return Product(payoff_underlying=U.Spot(), payoff=P.Barrier(strike=k, payoff_type=P.PayoffType.CALL, barrier_type=bt, barrier=lvl), maturity=1.0)

        pm = MLMCPath(deterministic_path=lambda t: np.zeros((2, np.size(t))), activate_spot_underlying=False)
        pm.set_to_path(StochasticJumpPath(times, np.stack([path1, coarse_path]), np.zeros((2, times.size))))
        prod_pm = mk()
        R.hit("path_manager_pairs")
        try:
            pm.process(prod_pm, NoControlVariates())
            got_pair = np.asarray(pm.payoff, dtype=float).reshape(-1)
        except Exception as exc:  # noqa: BLE001
            R.violation("path-manager-raises", f"MLMCPath.process raises {type(exc).__name__}: {exc}", wit)
            break
        alone = []
        for pth in (path1, coarse_path):
            fresh = mk()
            alone.append(float(fresh(fresh.underlying_value(times, pth, J[0]))))
        if not np.allclose(got_pair, alone, rtol=1e-12, atol=0):
            R.violation("path-manager-fine-payoff-depends-on-the-coarse-path", f"{bt.name} barrier {lvl!r}: the multilevel path manager gives (fine, coarse) = "
                        f"{got_pair.tolist()}, the product evaluated on each path alone gives {alone}", wit)
            break
    # ---- a barrier product used as control variate: the path managers hand the control's value on the path being processed (one
    #      ControlVariates object over a sequence of paths, then over a coupled pair)
    from rpylib.montecarlo.path import MCPath
    from rpylib.product.product import ControlVariates

    bt_cv = [P.BarrierType.DOWN_AND_IN, P.BarrierType.DOWN_AND_OUT, P.BarrierType.UP_AND_IN, P.BarrierType.UP_AND_OUT][int(rng.integers(4))]

    def mk_cv():
        return Product(payoff_underlying=U.Spot(), payoff=P.Barrier(strike=k, payoff_type=P.PayoffType.CALL, barrier_type=bt_cv, barrier=lvl), maturity=1.0, notional=2.0)

    def alone_cv(pth):
        fresh = mk_cv()
        return float(fresh(fresh.underlying_value(times, pth, J[0])))

    main_prod = Product(payoff_underlying=U.Spot(), payoff=P.Vanilla(strike=k, payoff_type=P.PayoffType.CALL), maturity=1.0)
    cvs_obj = ControlVariates(products=[mk_cv()], prices=[1.0])
    cvs_obj.initialisation(type(main_prod.payoff_underlying))
    seq = [path1 * 0.01, path1, path1 * 100.0, path1, coarse_path]
    try:
        pm1 = MCPath(deterministic_path=lambda t: np.zeros(np.size(t)), activate_spot_underlying=False)
        for pth in seq:
            pm1.set_to_path(StochasticJumpPath(times, pth, np.zeros(times.size)))
            pm1.process(main_prod, cvs_obj)
            got_cv = float(np.asarray(pm1.payoff_control_variates, dtype=float).reshape(-1)[0])
            R.hit("control_variate_products_on_paths")
            if not (abs(got_cv - alone_cv(pth)) <= 1e-12 * (1 + abs(got_cv))):
                R.violation("control-variate-value-not-the-value-on-the-processed-path", f"{bt_cv.name} barrier {lvl!r} as control variate: the path manager "
                            f"stores {got_cv!r} for a path on which the product alone is worth {alone_cv(pth)!r}", wit)
                break
        pm2 = MLMCPath(deterministic_path=lambda t: np.zeros((2, np.size(t))), activate_spot_underlying=False)
        pm2.set_to_path(StochasticJumpPath(times, np.stack([path1, coarse_path]), np.zeros((2, times.size))))
        pm2.process(main_prod, cvs_obj)
        got2 = np.asarray(pm2.payoff_control_variates, dtype=float).reshape(-1)
        R.hit("control_variate_products_on_paths")
        if not np.allclose(got2, [alone_cv(path1), alone_cv(coarse_path)], rtol=1e-12, atol=0):
            R.violation("control-variate-value-not-the-value-on-the-processed-path-coupled-pair", f"{bt_cv.name} barrier {lvl!r} as control variate: (fine, coarse) = "
                        f"{got2.tolist()}, alone {[alone_cv(path1), alone_cv(coarse_path)]}", wit)
    except Exception as exc:  # noqa: BLE001
        R.violation("path-manager-raises", f"path manager with a barrier control variate raises {type(exc).__name__}: {exc}", wit)
    # ---- control variates whose underlying is of the same class as the product's underlying but has its own parameters (another asset,
    #      other thresholds, other initial spots), or is implied from it (n-th spot under a product on all spots): each control is worth
    #      what it is worth alone on the path
    if d >= 2:
        zero_j = np.zeros_like(S)
        pairs = [("NthSpot", U.NthSpot(1), U.NthSpot(2)),
                 ("Indicators", U.Indicators([float(v) * 0.9 for v in S_T]), U.Indicators([float(v) * 1.1 for v in S_T])),
                 ("Performances", U.Performances([float(v) for v in s0]), U.Performances([2.0 * float(v) for v in s0])),
                 ("Spot-NthSpot", U.Spot(), U.NthSpot(d))]
        for pname, und_main, und_ctrl in pairs:
            try:
                pay_main = P.PayoffOnTheFly(lambda x: float(np.sum(x))) if pname in ("Performances", "Spot-NthSpot") else P.Forward(strike=0.0)
                pay_ctrl = P.PayoffOnTheFly(lambda x: float(np.sum(x))) if pname == "Performances" else P.Forward(strike=0.0)
                main2 = Product(payoff_underlying=und_main, payoff=pay_main, maturity=1.0)
                ctrl2 = Product(payoff_underlying=und_ctrl, payoff=pay_ctrl, maturity=1.0)
                alone = float(np.asarray(ctrl2(ctrl2.underlying_value(times, S, zero_j))).reshape(-1)[0])
                cvs2 = ControlVariates(products=[ctrl2], prices=[1.0])
                cvs2.initialisation(type(main2.payoff_underlying))
                pm3 = MCPath(deterministic_path=lambda t: np.zeros((d, np.size(t))), activate_spot_underlying=False)
                pm3.set_to_path(StochasticJumpPath(times, S, zero_j))
                pm3.process(main2, cvs2)
                got3 = float(np.asarray(pm3.payoff_control_variates, dtype=float).reshape(-1)[0])
            except Exception as exc:  # noqa: BLE001
                R.violation(f"control-variate-with-its-own-parameters-raises-{pname}", f"{pname}: {type(exc).__name__}: {exc}", wit)
                continue
            R.hit("control_variates_with_their_own_parameters")
            if not (abs(got3 - alone) <= 1e-12 * (1 + abs(alone))):
                R.violation(f"control-variate-valued-with-the-underlying-of-the-product-{pname}", f"{pname}: the control variate is worth {alone!r} on the path, the path "
                            f"manager stores {got3!r} (the product's own underlying has other parameters)", wit)
    # ---- averages -----------------------------------------------------------------------------------------------------------------
    if d == 1:
        for rep in (PR.IDENDITY, PR.LOG):
            pr = Product(payoff_underlying=U.Asian(U.Discretisation.MONTHLY), payoff=P.Forward(strike=0.0), maturity=1.0)
            R.hit("average_bounds")
            try:
                v = float(np.asarray(_eval(pr, rep, times, S1, J1)).reshape(-1)[0])
            except Exception as exc:  # noqa: BLE001
                R.violation("Asian-evaluation-raises", f"Asian average ({rep.name}) raises {type(exc).__name__}: {exc}", wit)
                continue
            lo, hi = float(np.min(S1[1:])), float(np.max(S1[1:]))
            if not (lo * (1 - 1e-12) <= v <= hi * (1 + 1e-12)):
                R.violation("average-outside-extremes", f"Asian average {v!r} outside [{lo!r}, {hi!r}] ({rep.name})", wit)
            want = float(np.sum(S1[1:] * np.diff(times)) / times[-1])
            if not (abs(v - want) <= 1e-12 * want):
                R.violation("average-not-time-weighted-mean", f"Asian average {v!r}, time-weighted mean of the path {want!r}", wit)
    else:
        pr = Product(payoff_underlying=U.Mean(), payoff=P.Forward(strike=0.0), maturity=1.0)
        R.hit("average_bounds")
        v = float(np.asarray(_eval(pr, PR.IDENDITY, times, S1, J1)).reshape(-1)[0])
        if not (np.min(S_T) * (1 - 1e-12) <= v <= np.max(S_T) * (1 + 1e-12)):
            R.violation("mean-outside-extremes", f"Mean {v!r} outside [{np.min(S_T)!r}, {np.max(S_T)!r}]", wit)
    # ---- default times -----------------------------------------------------------------------------------------------------------------
    ratios = np.diff(logJ, axis=1)
    levels = [-float(abs(rng.choice([0.05, 0.2, 0.5, float(abs(np.min(ratios[i])) * rng.choice([0.9, 1.1]) + 1e-3)]))) for i in range(d)]
    own = []
    for i in range(d):
        idx = np.where(ratios[i] < levels[i])[0]
        own.append(float(times[idx[0] + 1]) if idx.size else math.inf)
    for rep in (PR.IDENDITY, PR.LOG):
        if d == 1:
            pr = Product(payoff_underlying=U.DefaultTime(levels[0]), payoff=P.PayoffOnTheFly(lambda t: t), maturity=1.0)
            R.hit("default_time_checks")
            v = float(_eval(pr, rep, times, S1, J1))
            if v != own[0]:
                R.violation("default-time-not-first-jump-below-threshold", f"DefaultTime({levels[0]}) = {v!r}, first jump below the threshold at "
                            f"{own[0]!r} ({rep.name})", wit)
        else:
            prev = -math.inf
            srt = sorted(own)
            for nth in range(1, d + 1):
                pr = Product(payoff_underlying=U.NthDefaultTimes(levels, nth), payoff=P.PayoffOnTheFly(lambda t: t), maturity=1.0)
                R.hit("nth_default_monotone")
                try:
                    v = float(_eval(pr, rep, times, S1, J1))
                except Exception as exc:  # noqa: BLE001
                    R.violation(f"nth-default-time-raises-{rep.name}", f"NthDefaultTimes (n = {nth}) raises {type(exc).__name__}: {exc} ({rep.name})", wit)
                    break
                if v != srt[nth - 1]:
                    R.violation("nth-default-time-wrong", f"{nth}-th default time {v!r}, harness scan {srt[nth - 1]!r} ({rep.name})", wit)
                if v < prev:
                    R.violation("nth-default-times-decreasing", f"{nth}-th default time {v!r} < {nth - 1}-th {prev!r}", wit)
                prev = v
                pr = Product(payoff_underlying=U.DefaultTimeNthUnderlying(levels, nth), payoff=P.PayoffOnTheFly(lambda t: t), maturity=1.0)
                R.hit("default_time_checks")
                v = float(_eval(pr, rep, times, S1, J1))
                if v != own[nth - 1]:
                    R.violation("default-time-of-nth-name-wrong", f"default time of name {nth}: {v!r}, harness scan {own[nth - 1]!r} ({rep.name})", wit)
    if d == 1:
        R.hit("nth_default_monotone", 0)
    # ---- notional linearity ---------------------------------------------------------------------------------------------------------------
    nt = float(rng.uniform(-3, 7)) if case["seed"] % 4 else [0.0, 0, -0.0, 1e-12][case["seed"] // 4 % 4]        # (zero is a notional like any other)
    p1 = Product(payoff_underlying=U.Spot(), payoff=P.Vanilla(strike=k, payoff_type=P.PayoffType.CALL), maturity=1.0, notional=1.0)
    p2 = Product(payoff_underlying=U.Spot(), payoff=P.Vanilla(strike=k, payoff_type=P.PayoffType.CALL), maturity=1.0, notional=nt)
    R.hit("notional_linearity")
    if not (abs(float(p2(x)) - nt * float(p1(x))) <= 1e-12 * abs(nt) * x):
        R.violation("notional-not-linear" + ("-zero-notional" if nt == 0 else ""), f"notional {nt!r}: {p2(x)!r} vs {nt!r} * {p1(x)!r}", wit)
    if nonzero:
        R.nontrivial_case(case["seed"])
    if case["seed"] % 50 == 0:
        R.sample({"d": d, "dates": int(times.size), "terminal": S_T.tolist(), "default_times": own})
