"""C06 -- sample allocation meets the variance budget; runs stop only on stated criteria.

(a) compute_mc_paths_giles / criteria_giles called on generated vectors; the bias tolerance of the stopping test is
    OBSERVED (bisection on the real function), then  sum V_l / N_l <= rmse^2 - T^2  is judged.
(a') criteria_giles on vectors of 1..7 level means against the stated three-level rule (both answers, boundary excluded).
(b) the real multilevel Engine with a scripted coupling process; record-only wrappers on the configured criteria and
    allocation functions; the event log is checked: no sample above the maximum level, return only when the last
    criteria call was True or the maximum level is reached, every level within the 1% rule, bounded termination.
"""
from __future__ import annotations

import math

import numpy as np

from ..scripted_process import ScriptedCoupling, BudgetExceeded
from .C05 import make_profile

ID = "C06"
RULE = ("(a) case = (variance vector, cost vector of length 3..12 with dynamic range 1e-12..1e6 and zeros in either or both, rmse over "
        "4 decades, alpha in [0.3, 3]); (b) case = scripted (mean, sd, cost) profile x rmse x initial level x N0 x maximum level, "
        "rates given or regressed, one or two processes; (c) case = vector of 1..7 level means around the observed tolerance with a price-sized first entry; non-trivial = (a) at least two levels with positive variance, (b) run with >= 2 allocation "
        "calls; distinct = distinct seed")
ASSUMPTIONS = ["N_l = 0 with V_l > 0 counts as infinite variance; V_l = 0 contributes 0 whatever N_l",
               "bounded termination: a run that needs more than the sample budget (quick 1.5e5, thorough 2e6) is inconclusive",
               "the stopping test is the stated one: the last three level means (the ones available when fewer), each extrapolated to the last level by "
               "2^(-k alpha)/(2^alpha - 1), against a tolerance T that is OBSERVED on the real function (bisection on [0, 0, m]); vectors within 1e-9 of "
               "the boundary are not judged",
               "runs with worker processes: the samples are counted where they reach the statistics in the parent process"]
REQUIRED_COUNTERS = ["allocation_checks", "bias_tolerance_measurements", "stopping_test_evaluations", "stopping_test_on_fewer-than-three_levels",
                     "run_stopping_tests_rechecked", "runs_with_worker_processes", "stopping_tests_with_given_rates", "maximum_level_given_as_a_float", "runs_on_an_engine_that_priced_before", "runs", "criteria_calls_observed", "allocation_calls_observed",
                     "runs_stopped_by_criteria", "runs_stopped_at_maximum_level", "default_configuration_histories"]
MIN_NONTRIVIAL = {"quick": 300, "thorough": 6000}
SHARD_TIMEOUT = {"quick": 900, "thorough": 7200}


def gen_cases(tier, seed):
    rng = np.random.default_rng(seed + 600)
    na = 400 if tier == "quick" else 12000
    nb = 80 if tier == "quick" else 1200
    cases = [{"kind": "alloc", "seed": int(rng.integers(2**31)), "zeros": ["none", "vl", "cl", "both", "none"][i % 5]} for i in range(na)]
    for i in range(nb):
        cases.append({"kind": "run", "seed": int(rng.integers(2**31)), "profile": ["geometric", "plateau", "zero-variance-level", "cost-spike", "slow-decay"][i % 5],
                      "rmse_exp": float(rng.uniform(-2.0 if tier == "thorough" else -1.4, -0.2)), "L0": int(rng.choice([0, 1, 2, 2, 3, 4])),
                      "N0": int(rng.choice([2, 5, 20, 100])), "Lmax_extra": int(rng.integers(0, 6)), "beta": float(rng.uniform(0.6, 2.2)),
                      "alpha": float(rng.uniform(0.5, 1.5)), "rates_given": bool(i % 3 != 0), "scale": float(rng.choice([1.0, 30.0])),
                      "budget": 2_000_000 if tier == "thorough" else 150_000})
    # rates given by the user at the low end of what the configuration accepts (alpha >= min(beta, gamma) / 2)
    for i in range(8 if tier == "quick" else 80):
        al = float(rng.uniform(0.15, 0.5))
        cases.append({"kind": "run", "seed": int(rng.integers(2**31)), "profile": ["slow-decay", "geometric"][i % 2], "rmse_exp": float(rng.uniform(-1.2, -0.3)),
                      "L0": int(rng.choice([1, 2, 3])), "N0": int(rng.choice([20, 100])), "Lmax_extra": int(rng.integers(3, 8)), "beta": float(rng.uniform(0.2, 2 * al)),
                      "alpha": al, "rates_given": True, "scale": 1.0, "budget": 150_000})
    # no initial path at all: refused by the configuration, or a run like any other
    cases.append({"kind": "run", "seed": int(rng.integers(2**31)), "profile": "geometric", "rmse_exp": -0.8, "L0": 2, "N0": 0, "Lmax_extra": 3, "beta": 1.5, "alpha": 1.0,
                  "rates_given": True, "scale": 1.0, "budget": 150_000})
    # a maximum level computed from a formula (not a whole number, or a whole number held in a float)
    for i in range(4 if tier == "quick" else 30):
        cases.append({"kind": "run", "seed": int(rng.integers(2**31)), "profile": ["slow-decay", "plateau"][i % 2], "rmse_exp": float(rng.uniform(-1.6, -0.9)),
                      "L0": int(rng.choice([1, 2])), "N0": 20, "Lmax_extra": int(rng.integers(1, 4)), "Lmax_frac": [0.5, 0.0, 0.25, 0.99][i % 4], "beta": float(rng.uniform(0.6, 1.0)),
                      "alpha": float(rng.uniform(0.5, 0.7)), "rates_given": True, "scale": 1.0, "budget": 150_000})
    # a maximum level below the initial level: refused by the configuration, or honoured (no level above the maximum is ever simulated)
    for i in range(4 if tier == "quick" else 30):
        cases.append({"kind": "run", "seed": int(rng.integers(2**31)), "profile": "geometric", "rmse_exp": float(rng.uniform(-1.2, -0.4)),
                      "L0": int(rng.choice([2, 3, 4])), "N0": 20, "Lmax_extra": -int(rng.choice([1, 2])), "beta": 1.5, "alpha": 1.0, "rates_given": True,
                      "scale": 1.0, "budget": 150_000})
    # histories of pricings in one process with the library's DEFAULT configuration arguments (no convergence rates given): a run must not
    # depend on the runs priced before it
    # the stopping test itself on short and long vectors of level means (1..7 levels, the first one of the size of a price)
    for i in range(300 if tier == "quick" else 6000):
        cases.append({"kind": "criteria", "seed": int(rng.integers(2**31))})
    # the samples simulated by a pool of two worker processes (small passes: a few paths per level)
    for i in range(6 if tier == "quick" else 40):
        cases.append({"kind": "run", "seed": int(rng.integers(2**31)), "profile": ["geometric", "slow-decay", "plateau"][i % 3], "rmse_exp": float(rng.uniform(-0.9, -0.3)),
                      "L0": int(rng.choice([1, 2, 3])), "N0": int(rng.choice([3, 5, 20])), "Lmax_extra": int(rng.integers(1, 4)), "beta": float(rng.uniform(0.8, 2.0)),
                      "alpha": float(rng.uniform(0.6, 1.3)), "rates_given": True, "scale": 1.0, "budget": 3000, "workers": 2})
    for i in range(6 if tier == "quick" else 60):
        a = {"seed": int(rng.integers(2**31)), "profile": "geometric", "rmse_exp": float(rng.uniform(-1.3, -0.6)), "L0": 2, "N0": 20, "Lmax_extra": 4,
             "beta": float(rng.uniform(1.2, 2.2)), "alpha": float(rng.uniform(1.0, 1.5)), "scale": 1.0, "budget": 150_000}
        b = dict(a, seed=int(rng.integers(2**31)), profile="slow-decay", alpha=float(rng.uniform(0.5, 0.7)), beta=float(rng.uniform(0.6, 0.9)))
        cases.append({"kind": "history", "a": a, "b": b, "seed": a["seed"]})
    return cases


def run_case(case, R):
    R.evaluation()
    if case["kind"] == "alloc":
        _alloc(case, R)
    elif case["kind"] == "history":
        _history(case, R)
    elif case["kind"] == "criteria":
        _criteria(case, R)
    else:
        _run(case, R)


def _history(case, R):
    """run A, run B, run A again -- each with a fresh scripted process, a fresh engine and a fresh configuration built with the library's
    default arguments; the scripted samples are deterministic, so the two runs of A must agree exactly"""
    from rpylib.montecarlo.configuration import ConfigurationMultiLevel
    from rpylib.montecarlo.multilevel.engine import Engine
    from rpylib.product.product import Product
    from rpylib.product.underlying import Spot
    from rpylib.product.payoff import Forward

    def price(c):
        profile, cost = make_profile(c)
        cp = ScriptedCoupling(profile, cost, rate=0.02, budget=c["budget"])
        conf = ConfigurationMultiLevel(initial_level=c["L0"], maximum_level=c["L0"] + c["Lmax_extra"], initial_mc_paths=c["N0"], seed=7, nb_of_processes=1)
        product = Product(payoff_underlying=Spot(), payoff=Forward(strike=10.0), maturity=1.5, notional=2.0)
        st = Engine(conf, cp).price(product, c["scale"] * 10.0 ** c["rmse_exp"])
        return [int(n) for n in st.mlmc_results.Nl], float(st.price())

    try:
        a1 = price(case["a"])
        price(case["b"])
        a2 = price(case["a"])
    except BudgetExceeded:
        R.skip("sample-budget-exceeded (bounded termination not decided)")
        return
    except Exception as exc:  # noqa: BLE001
        R.violation("engine-raises", f"multilevel Engine.price raises {type(exc).__name__}: {exc}", {"case": case})
        return
    R.hit("default_configuration_histories")
    if a1 != a2:
        R.violation("run-depends-on-the-runs-priced-before-it", f"the same run (default convergence rates, fresh process / engine / configuration objects) gives "
                    f"Nl = {a1[0]}, price {a1[1]!r} the first time and Nl = {a2[0]}, price {a2[1]!r} after another pricing in the same process", {"case": case})
    R.nontrivial_case("history", case["seed"])


def _bias_tolerance(criteria, alpha, rmse):
    """largest T such that the stopping test accepts a remaining bias of T (observed by bisection on the real function)"""
    lo, hi = 0.0, 10.0 * rmse

    def ok(t):
        m = t * (2**alpha - 1)
        return bool(criteria(alpha, np.array([0.0, 0.0, m]), rmse))

    if not ok(lo):
        return 0.0
    while ok(hi):
        hi *= 10
        if hi > 1e12 * rmse:
            return math.inf
    for _ in range(200):
        mid = 0.5 * (lo + hi)
        if ok(mid):
            lo = mid
        else:
            hi = mid
        if hi - lo <= 1e-15 * hi:
            break
    return lo


def _three_level_rule(alpha, ml, T):
    """the stated stopping test: every one of the last three level means (of the ones available when fewer), extrapolated to the last
    level, within the tolerance T.  Returns (verdict, margin) -- margin = relative distance of the deciding quantity from T"""
    ml = np.abs(np.asarray(ml, dtype=float))
    n = min(3, len(ml))
    rem = max(ml[-1 - k] / 2.0 ** (k * alpha) for k in range(n)) / (2.0**alpha - 1.0)
    return bool(rem <= T), (abs(rem - T) / T if T > 0 else math.inf)


def _criteria(case, R):
    from rpylib.montecarlo.multilevel.criteria import criteria_giles

    rng = np.random.default_rng(case["seed"])
    n = int(rng.integers(1, 8))
    alpha = float(rng.uniform(0.3, 3.0))
    rmse = float(10.0 ** rng.uniform(-3, 1))
    T = _bias_tolerance(criteria_giles, alpha, rmse)
    R.hit("bias_tolerance_measurements")
    if not (0 < T < math.inf):
        R.skip("no finite positive bias tolerance observed")
        return
    # level means: a price-sized first entry, corrections around the tolerance (so that either answer occurs)
    ml = T * (2.0**alpha - 1.0) * 10.0 ** rng.uniform(-1.5, 1.0, size=n) * 2.0 ** (alpha * np.arange(n)[::-1] * rng.uniform(0, 1.2))
    if rng.random() < 0.6:
        ml[0] = float(10.0 ** rng.uniform(-1, 2)) * max(rmse, 1.0)
    if rng.random() < 0.3:
        ml[int(rng.integers(n))] = 0.0
    want, margin = _three_level_rule(alpha, ml, T)
    if margin < 1e-9:
        R.skip("on the boundary of the stopping test")
        return
    try:
        got = bool(criteria_giles(alpha, ml.copy(), rmse))
    except Exception as exc:  # noqa: BLE001
        R.violation("criteria-raises", f"criteria_giles raises {type(exc).__name__}: {exc} on {n} level mean(s)", {"ml": ml.tolist(), "alpha": alpha, "rmse": rmse})
        return
    R.hit("stopping_test_evaluations")
    R.hit(f"stopping_test_on_{'fewer-than-three' if n < 3 else 'three' if n == 3 else 'more-than-three'}_levels")
    if got != want:
        tag = "fewer-than-four-levels" if n < 4 else "four-or-more-levels"
        R.violation(f"stopping-test-{'passes' if got else 'fails'}-against-the-last-three-level-means-{tag}",
                    f"criteria_giles(alpha={alpha!r}, ml={ml.tolist()}, rmse={rmse!r}) = {got}; observed bias tolerance T = {T!r}; the last "
                    f"{min(3, n)} level mean(s), extrapolated, {'exceed' if got else 'are within'} it", {"ml": ml.tolist(), "alpha": alpha, "rmse": rmse, "T": T})
    R.nontrivial_case("criteria", case["seed"])


def _alloc(case, R):
    from rpylib.montecarlo.multilevel.criteria import compute_mc_paths_giles, criteria_giles

    rng = np.random.default_rng(case["seed"])
    n = int(rng.integers(3, 13))
    vl = 10.0 ** rng.uniform(-12, 6, size=n) if rng.random() < 0.3 else 10.0 ** (rng.uniform(-2, 2) - rng.uniform(0.3, 2.5) * np.arange(n))
    cl = 10.0 ** rng.uniform(-12, 6, size=n) if rng.random() < 0.3 else 10.0 ** (rng.uniform(-2, 2) + rng.uniform(0.3, 1.5) * np.arange(n))
    if case["zeros"] in ("vl", "both"):
        vl[rng.random(n) < 0.35] = 0.0
    if case["zeros"] in ("cl", "both"):
        cl[rng.random(n) < 0.35] = 0.0
    rmse = float(10.0 ** rng.uniform(-3, 1)) * math.sqrt(max(float(np.max(vl)), 1e-30))
    alpha = float(rng.uniform(0.3, 3.0))
    wit = {"vl": vl.tolist(), "cl": cl.tolist(), "rmse": rmse, "alpha": alpha}
    vl0, cl0 = vl.copy(), cl.copy()
    with np.errstate(all="ignore"):
        try:
            Ns = np.asarray(compute_mc_paths_giles(rmse, vl, cl))
        except Exception as exc:  # noqa: BLE001
            R.violation("allocation-raises", f"compute_mc_paths_giles raises {type(exc).__name__}: {exc}", wit)
            return
    if not (np.array_equal(vl, vl0) and np.array_equal(cl, cl0)):
        R.violation("allocation-mutates-its-inputs", "compute_mc_paths_giles modified vl or cl in place", wit)
    R.hit("bias_tolerance_measurements")
    T = _bias_tolerance(criteria_giles, alpha, rmse)
    R.hit("allocation_checks")
    if Ns.shape != vl.shape or np.any(Ns < 0):
        R.violation("allocation-shape-or-sign", f"Ns = {Ns.tolist()}", wit)
        return
    with np.errstate(all="ignore"):
        terms = np.where(vl > 0, np.where(Ns > 0, vl / np.maximum(Ns, 1), np.inf), 0.0)
    var = float(np.sum(terms))
    budget = rmse**2 - T**2
    zc = "zero-cost-level" if np.any((cl == 0) & (vl > 0)) else "positive-costs"
    if not var <= budget * (1 + 1e-12):
        R.violation(f"variance-plus-bias-exceeds-rmse2-{zc}", f"sum V_l/N_l = {var!r} with N = {Ns.tolist()}; the stopping test tolerates a bias of "
                    f"{T!r} (= {T / rmse:.4f} rmse), so variance + bias^2 = {var + T * T!r} > rmse^2 = {rmse**2!r} "
                    f"(variance share used by the allocation: {var / rmse**2:.4f} rmse^2)", wit)
    if np.sum(vl > 0) >= 2:
        R.nontrivial_case(case["seed"])
    if case["seed"] % 200 == 0:
        R.sample({"kind": "alloc", "vl": vl.tolist(), "cl": cl.tolist(), "rmse": rmse, "Ns": Ns.tolist(), "bias_tolerance_over_rmse": T / rmse})


def _run(case, R):
    import logging

    logging.disable(logging.CRITICAL)
    from rpylib.montecarlo.configuration import ConfigurationMultiLevel, ConvergenceRates
    from rpylib.montecarlo.multilevel.engine import Engine
    from rpylib.product.product import Product
    from rpylib.product.underlying import Spot
    from rpylib.product.payoff import Forward

    profile, cost = make_profile(case)
    rmse = case["scale"] * 10.0 ** case["rmse_exp"]
    L0, N0 = case["L0"], case["N0"]
    Lmax = L0 + case["Lmax_extra"]
    if "Lmax_frac" in case:
        Lmax = float(Lmax) + float(case["Lmax_frac"])
        R.hit("maximum_level_given_as_a_float")
    rates = ConvergenceRates(alpha=case["alpha"], beta=case["beta"], gamma=1.0) if case["rates_given"] else ConvergenceRates()
    cp = ScriptedCoupling(profile, cost, rate=0.02, budget=case["budget"])
    workers = int(case.get("workers", 1))
    try:
        conf = ConfigurationMultiLevel(convergence_rates=rates, initial_level=L0, maximum_level=Lmax, initial_mc_paths=N0, seed=7, nb_of_processes=workers)
    except ValueError:
        if Lmax < L0:
            R.hit("inconsistent_levels_refused")
            R.skip("refused-by-configuration: maximum level below the initial level")
            return
        if N0 < 1:
            R.hit("no_initial_path_refused")
            R.skip("refused-by-configuration: no initial path")
            return
        raise
    if Lmax < L0:
        R.hit("inconsistent_levels_accepted")
    cc = conf.convergence_criteria
    calls = []
    orig_c, orig_n = cc.criteria, cc.compute_mc_paths

    from rpylib.montecarlo.statistic.statistic import MLMCStatistics

    written = {}          # level -> number of samples handed to the statistics (in this process, also when workers simulate them)

    def n_written():
        return sum(written.values())

    def criteria(alpha, ml, rmse_):
        out = orig_c(alpha, ml, rmse_)
        calls.append(("criteria", bool(out), len(ml), n_written(), float(alpha), np.array(ml, dtype=float, copy=True), float(rmse_)))
        return out

    def compute(rmse_, vl, cl):
        out = orig_n(rmse_, vl, cl)
        calls.append(("alloc", np.asarray(out).copy(), n_written()))
        return out

    cc.criteria, cc.compute_mc_paths = criteria, compute
    product = Product(payoff_underlying=Spot(), payoff=Forward(strike=10.0), maturity=1.5, notional=2.0)
    wit = {"case": case, "rmse": rmse, "Lmax": Lmax}
    orig_add = MLMCStatistics.add

    def add(self_, simulation, level, path_manager):
        written[int(level)] = written.get(int(level), 0) + 1
        return orig_add(self_, simulation, level, path_manager)

    eng = Engine(conf, cp)
    base_events, base_total = 0, 0
    if case["seed"] % 4 == 0 and workers == 1:
        # the engine object has priced before (a looser and a tighter target in turn): the run judged below is its third pricing
        try:
            for f_ in (3.0, 0.6):
                eng.price(product, rmse * f_)
        except BudgetExceeded:
            R.skip("sample-budget-exceeded (bounded termination not decided)")
            return
        except Exception as exc:  # noqa: BLE001
            R.violation("engine-raises-when-priced-again", f"multilevel Engine.price raises {type(exc).__name__}: {exc}", wit)
            return
        R.hit("runs_on_an_engine_that_priced_before")
        base_events, base_total = len(cp.log.events), cp.counters.total()
        cp.budget += base_total
        calls.clear()
        written.clear()
    MLMCStatistics.add = add
    try:
        st = eng.price(product, rmse)
    except BudgetExceeded:
        R.skip("sample-budget-exceeded (bounded termination not decided)")
        return
    except Exception as exc:  # noqa: BLE001
        R.violation("engine-raises" + ("-with-worker-processes" if workers > 1 else ""), f"multilevel Engine.price raises {type(exc).__name__}: {exc}", wit)
        return
    finally:
        MLMCStatistics.add = orig_add
    R.hit("runs")
    if workers > 1:
        R.hit("runs_with_worker_processes")
        levels = sorted(written)
    else:
        levels = [e[1] for e in cp.log.events[base_events:] if e[0] == "sample"]
        if n_written() != cp.counters.total() - base_total:
            R.violation("samples-simulated-but-not-stored", f"{cp.counters.total() - base_total} samples simulated, {n_written()} handed to the statistics", wit)
    if not levels:
        R.violation("returned-without-a-sample", f"price() returned without simulating any sample (initial_mc_paths = {N0}), no stopping test, "
                    f"level {len(st.mc_statistics) - 1} < maximum_level = {Lmax}", wit)
        return
    top = max(levels)
    nlev = len(st.mc_statistics)
    if top > Lmax or nlev - 1 > Lmax:
        R.violation("level-above-maximum", f"samples simulated at level {top}, statistics for {nlev - 1} levels, maximum_level = {Lmax}", wit)
    crit = [c for c in calls if c[0] == "criteria"]
    allocs = [c for c in calls if c[0] == "alloc"]
    R.hit("criteria_calls_observed", len(crit))
    R.hit("allocation_calls_observed", len(allocs))
    Nl = np.asarray(st.mlmc_results.Nl, dtype=float)
    total = n_written()
    got_n = np.array([written.get(l, 0) for l in range(len(Nl))], dtype=float)
    if not np.array_equal(got_n, Nl):
        l = int(np.where(got_n != Nl)[0][0])
        R.violation("level-reported-with-samples-never-simulated" + ("-worker-processes" if workers > 1 else ""), f"level {l}: Nl = {Nl[l]:.0f} reported, "
                    f"{got_n[l]:.0f} samples reached the statistics (Nl = {Nl.tolist()}, simulated = {got_n.tolist()})", wit)
    # the stopping test the run relied on, against the stated rule (tolerance observed on the real function)
    if crit and cc.criteria is criteria and getattr(orig_c, "__name__", "") == "criteria_giles":
        last = crit[-1]
        T = _bias_tolerance(orig_c, last[4], last[6])
        if 0 < T < math.inf:
            want, margin = _three_level_rule(last[4], last[5], T)
            R.hit("run_stopping_tests_rechecked")
            if margin > 1e-9 and want != last[1]:
                R.violation(f"stopping-test-{'passes' if last[1] else 'fails'}-against-the-last-three-level-means-{'fewer-than-four-levels' if last[2] < 4 else 'four-or-more-levels'}",
                            f"the run's last stopping test, criteria(alpha={last[4]!r}, ml={last[5].tolist()}, rmse={last[6]!r}) = {last[1]}, but the last "
                            f"{min(3, last[2])} level means extrapolated {'exceed' if last[1] else 'are within'} the observed tolerance {T!r}", wit)
    if case["rates_given"]:
        # the rates are the user's: every stopping test of the run is evaluated with the configured weak rate
        R.hit("stopping_tests_with_given_rates", len(crit))
        other = [c for c in crit if c[4] != case["alpha"]]
        if other:
            R.violation("stopping-test-evaluated-with-another-rate-than-the-given-one", f"convergence rates given (alpha = {case['alpha']!r}): {len(other)} of the "
                        f"{len(crit)} stopping tests were evaluated with alpha = {other[0][4]!r}", wit)
    if not crit:
        # returned through the "initial number of paths too low" exit: only legal when no allocation asked for more samples
        R.violation("returned-without-bias-test", "price() returned although the stopping test was never evaluated", wit)
    else:
        last = crit[-1]
        if last[3] != total:
            R.violation("samples-simulated-after-the-last-bias-test", f"{total - last[3]} samples were simulated after the last stopping test", wit)
        if last[1]:
            R.hit("runs_stopped_by_criteria")
        elif nlev - 1 == math.floor(Lmax):
            R.hit("runs_stopped_at_maximum_level")
        else:
            R.violation("returned-before-criteria-or-maximum-level", f"price() returned at L = {nlev - 1} < maximum_level = {Lmax} although the "
                        "last stopping test was False", wit)
        # the last allocation computed before that test: every level within the 1% rule
        before = [a for a in allocs if a[2] <= last[3]]
        if before:
            Ns = np.asarray(before[-1][1], dtype=float)
            if len(Ns) == len(Nl):
                short = Ns - Nl
                bad = np.where(short > 0.01 * Nl + 1e-9)[0]
                if bad.size:
                    l = int(bad[0])
                    R.violation("returned-with-a-level-short-of-its-optimal-size", f"level {l}: optimal {Ns[l]:.0f} samples, simulated {Nl[l]:.0f} "
                                "(more than 1% short) when the run returned", wit)
    if len(allocs) >= 2:
        R.nontrivial_case(case["seed"])
    if case["seed"] % 20 == 0:
        R.sample({"kind": "run", "case": case, "levels": nlev, "Nl": Nl.tolist(), "criteria_calls": [[c[1], c[2]] for c in crit][:8]})
