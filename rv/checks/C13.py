"""C13 -- state grids are well formed and refinement nests them.

Monitors: icontract post-conditions on CTMCGrid.__init__ and CTMCGrid.refine (rv.contracts), attached
from the harness, evaluated on every grid built / refined through the public constructors; promised
probabilities judged by quadrature of the model's own density.
"""
from __future__ import annotations

import math

import numpy as np

from .. import contracts, gridspec as G, workloads as W
from ..oracles import quadrature as Q

ID = "C13"
NEEDS_DEPS = True
RULE = ("case = (model or copula-model spec, grid constructor in {uniform, fixed-size, geometric, geometric-with-bounds, "
        "probability-step, credit sym/asym}, generated arguments, dimension 1..3, number of successive refinements 0..k); "
        "contracts fire on every constructor call and on every refine(); non-trivial = the grid was built (credit thresholds "
        "l < a < -h; spatial steps up to the size of the truncation bounds: built well-formed or refused) and at least one post-condition was evaluated; distinct = distinct "
        "(model label, ctor, dim, rounded arguments, refinements)")
ASSUMPTIONS = [
    "domain: credit thresholds l < a < -h (on the bounds: refused or well-formed); spatial steps from 1/200 of the truncation bound up to beyond it; truncation "
    "probabilities in [0.9, 0.999999]; probability steps in [0.01, 0.2]",
    "promised tail / step probabilities are judged by scipy quad of the model density (1e-6 relative)",
]
REQUIRED_COUNTERS = ["grid_init_postconditions", "grid_refine_postconditions", "origin_index_read_in_expressions", "tail_probability_checks",
                     "probability_step_checks", "time_grid_checks"]
MIN_NONTRIVIAL = {"quick": 60, "thorough": 400}
THOROUGH_ROUNDS = 20      # the thorough tier runs the generators this many times (different seeds)


def gen_cases(tier, seed):
    rng = np.random.default_rng(seed + 1300)
    thorough = tier == "thorough"
    cases = []
    fixed = [s for s in W.fixed_model_specs() if not s["exp"]]
    n1 = 6 if not thorough else 40
    maxref = 3 if not thorough else 6
    # 1-d: every constructor x fixed models (+ random models)
    for ctor in G.CTORS_1D:
        models = list(fixed) + [W.gen_model_spec(rng, exp=bool(i % 2)) for i in range(n1)]
        for k, m in enumerate(models):
            if ctor == "probstep" and W.activity_index(m) >= 1 and not thorough and k % 2:
                continue
            cases.append({"model": m, "grid": G.gen_grid_spec(rng, ctor, 1), "refine": int(rng.integers(0, maxref + 1))})
    # n-d
    nnd = 5 if not thorough else 30
    for ctor in G.CTORS_ND:
        for i in range(nnd):
            dim = 2 + (i % 2)
            cm = W.gen_copula_model_spec(rng, dim=dim)
            cases.append({"model": cm, "grid": G.gen_grid_spec(rng, ctor, dim), "refine": int(rng.integers(0, (2 if not thorough else 4) + 1))})
    # heavy-tailed margins (mean jump sizes of 5 .. 30): the truncation promised may lie beyond what the bound search can reach -- the
    # constructor refuses, or returns a grid that keeps the promise
    for i in range(4 if not thorough else 24):
        m = W.gen_model_spec(rng, "HEM", exp=False)
        m["params"]["eta1" if i % 2 == 0 else "eta2"] = W.r6(rng.uniform(0.03, 0.2))
        ctor = ["uniform", "geometric", "credit"][i % 3]
        g = G.gen_grid_spec(rng, ctor, 1)
        g["h_div"] = W.r6(rng.uniform(20.0, 60.0))
        if ctor != "credit":
            g["p"] = float(rng.choice([0.99999, 0.999999]))
        cases.append({"model": m, "grid": g, "refine": int(rng.integers(0, 2))})
    # spatial steps that are not short decimal numbers, and very small ones refined many times (h must be halved exactly)
    for i in range(6 if not thorough else 30):
        dim = 1 + (i % 3)
        m = W.gen_copula_model_spec(rng, dim=dim) if dim > 1 else W.gen_model_spec(rng, exp=False)
        g = G.gen_grid_spec(rng, ["fixed", "geometric_bounds"][i % 2], dim)
        if i % 3 == 0:
            g["h"] = float(10.0 ** rng.uniform(-8, -6))
            g["n"] = 7
            if g["ctor"] == "geometric_bounds":
                g["l"], g["r"], g["n_side"] = -float(g["h"] * rng.uniform(5, 50)), float(g["h"] * rng.uniform(5, 50)), 3
            nref = int(rng.integers(5, 9))
        else:
            g["h"] = float(g["h"] * rng.uniform(0.9, 1.1) / 3.0)          # (not rounded to six decimals)
            nref = int(rng.integers(1, 5))
        cases.append({"model": m, "grid": g, "refine": nref})
    # the smallest numbers of points of the fixed-size constructor (0, 1: no room for -h and +h; 2, 3: one state on each side)
    for nb in (0, 1, 2, 3, 4):
        cases.append({"model": W.gen_model_spec(rng, exp=False), "grid": {"ctor": "fixed", "dim": 1 + nb % 2, "h": W.r6(W._logu(rng, 0.01, 0.2)), "n": nb}, "refine": 1})
    # hand-built grids, one array per axis with its own bounds (the base constructor)
    for i in range(4 if not thorough else 24):
        dim = 2 + (i % 2)
        cases.append({"model": W.gen_copula_model_spec(rng, dim=dim), "grid": G.gen_grid_spec(rng, "per_axis", dim), "refine": int(rng.integers(0, 4))})
    # credit grids whose thresholds sit exactly on the left truncation / on -h (refused, or returned well-formed)
    for i in range(4 if not thorough else 24):
        dim = 1 + (i % 3)
        m = W.gen_copula_model_spec(rng, dim=dim) if dim > 1 else W.gen_model_spec(rng, str(rng.choice(["HEM", "CGMY", "VG", "MERTON"])))
        g = G.gen_grid_spec(rng, "credit" if i % 2 else ("credit_asym" if dim > 1 else "credit"), dim)
        g["a_frac"] = [float(rng.choice([0.0, 1.0])) if (k == i % dim or rng.random() < 0.3) else W.r6(rng.uniform(0.05, 0.95)) for k in range(dim)]
        g["boundary_threshold"] = True
        cases.append({"model": m, "grid": g, "refine": int(rng.integers(0, 3))})
    # time grids
    for i in range(6 if not thorough else 40):
        cases.append({"time": {"start": W.r6(rng.choice([0.0, rng.uniform(0, 2)])), "len": W.r6(W._logu(rng, 0.01, 30)),
                               "num": int(rng.integers(2, 400))}})
    return cases


def setup(R):
    contracts.install_grid_contracts()
    contracts.reset()
    return {}


def _tail_checks(R, g, grid, model, mspec, label):
    """uniform / geometric / credit: the truncation leaves exactly (1-p) of the mass beyond +-h/2 outside, per side
    (for a copula the bounds are the min / max over the margins: the largest fraction over the margins is 1-p)."""
    p = g.get("p", 0.99999)
    h = g["_h"]
    margins = mspec["margins"] if "margins" in mspec else [mspec]
    models = model.models if "margins" in mspec else [model]
    l, r = grid.truncations[0]
    if any(tuple(t) != (l, r) for t in grid.truncations):
        R.violation(f"{g['ctor']}-truncations-differ-across-axes", f"{label}: truncations {grid.truncations}", {"grid": g})
    fr_l, fr_r, round_l, round_r = [], [], [], []
    for ms, m in zip(margins, models):
        dens = m.levy_triplet.nu.__call__
        alpha = W.activity_index(ms)
        br = W.density_breakpoints(ms)
        tot_r, e1 = Q.integrate_xn(dens, h / 2, math.inf, 0, br, alpha)
        out_r, _ = Q.integrate_xn(dens, r, math.inf, 0, br, alpha)
        tot_l, e3 = Q.integrate_xn(dens, -math.inf, -h / 2, 0, br, alpha)
        out_l, _ = Q.integrate_xn(dens, -math.inf, l, 0, br, alpha)
        if min(tot_r, tot_l) <= 0 or e1 > 1e-9 * tot_r or e3 > 1e-9 * tot_l:
            R.skip("tail-oracle-inconclusive")
            return
        if min(tot_r, tot_l) < 1e-6 * (tot_r + tot_l) or min(tot_r, tot_l) < 1e-9:
            # one-sided measure: the mass on the thin side is below double-precision resolution of the closed forms,
            # the promise on that side is not decidable
            R.skip("one-sided-measure-tail-promise-undecidable")
            return
        fr_l.append(out_l / tot_l)
        fr_r.append(out_r / tot_r)
        # the closed-form tail masses carry an absolute rounding of ~1e-16 x the total mass: on the thin side of a skewed measure
        # that is a relative error of 1e-16 x total / side on the fraction the constructor solves for
        round_l.append(1e-14 * (tot_r + tot_l) / tot_l)
        round_r.append(1e-14 * (tot_r + tot_l) / tot_r)
    for side, fr, rnd in (("left", fr_l, round_l), ("right", fr_r, round_r)):
        R.hit("tail_probability_checks")
        f = max(fr)
        if not (abs(f - (1 - p)) <= 1e-6 * (1 - p) + 1e-13 + max(rnd)):
            R.violation(f"{g['ctor']}-tail-probability", f"{label}: {g['ctor']} grid with truncation probability {p}: the {side} "
                        f"tail beyond the truncation holds {f!r} of the mass beyond h/2 (largest over the margins), promised "
                        f"{1 - p!r}", {"model": mspec, "grid": g, "l": l, "r": r, "fractions": fr})


def _probstep_checks(R, g, grid, model, mspec, label):
    nu = model.levy_triplet.nu
    dens = nu.__call__
    alpha = W.activity_index(mspec)
    br = W.density_breakpoints(mspec)
    h, pstep = g["h"], g["pstep"]
    i_r, e1 = Q.integrate_xn(dens, h / 2, math.inf, 0, br, alpha)
    i_l, e2 = Q.integrate_xn(dens, -math.inf, -h / 2, 0, br, alpha)
    inten = i_r + i_l
    axis = np.asarray(grid.axes[0], dtype=float)
    o = grid.origin_coordinate.value
    n = axis.size
    # every spatial step [x_k, x_k+1] from +-h outwards carries the probability `pstep` (relative to the level-0 intensity),
    # except the last two steps of each side, which the constructor closes off without a probability target
    gaps = [(k, k + 1) for k in range(o + 1, n - 3)] + [(k - 1, k) for k in range(o - 1, 2, -1)]
    idx = gaps
    for k0, k1 in gaps:
        lo, hi = axis[k0], axis[k1]
        mass, e = Q.integrate_xn(dens, lo, hi, 0, br, alpha)
        R.hit("probability_step_checks")
        if e > 1e-8 * inten:
            R.skip("probstep-oracle-inconclusive")
            continue
        # tolerance: two root searches with xtol 1e-10 on the position, times the local density
        slack = 4e-10 * max(dens(lo), dens(hi)) / inten + 1e-7 * pstep
        if not (abs(mass / inten - pstep) <= slack):
            R.violation("probstep-step-probability", f"{label}: probability-step grid (step {pstep}, h {h}): the step "
                        f"[{lo!r}, {hi!r}] has probability {mass / inten!r}", {"model": mspec, "grid": g, "axis": axis.tolist()})
    if not idx:
        R.skip("probstep-too-few-interior-states")


def run_case(case, R, ctx):
    R.evaluation()
    if "time" in case:
        from rpylib.grid.time import TimeGrid

        t = case["time"]
        tg = TimeGrid(start=t["start"], end=t["start"] + t["len"], num=t["num"])
        arr = np.asarray(tg.grid, dtype=float)
        R.hit("time_grid_checks")
        R.klass("time-grid")
        if arr.size != t["num"] or arr[0] != t["start"] or not math.isclose(arr[-1], t["start"] + t["len"], rel_tol=1e-15) \
                or not np.all(np.diff(arr) > 0) or len(tg) != t["num"]:
            R.violation("time-grid-malformed", f"TimeGrid({t}) = {arr[:5]}...{arr[-2:]}", {"time": t})
        R.nontrivial_case("time", t)
        return
    mspec, g, nref = case["model"], dict(case["grid"]), case["refine"]
    label = W.any_label(mspec)
    model = W.build_any_model(mspec)
    if g["ctor"] == "probstep":
        # probability mid-points are undefined in a gap without mass: one-sided measures are outside the domain
        dens = model.levy_triplet.nu.__call__
        al, br = W.activity_index(mspec), W.density_breakpoints(mspec)
        m_r, _ = Q.integrate_xn(dens, g["h"] / 2, math.inf, 0, br, al)
        m_l, _ = Q.integrate_xn(dens, -math.inf, -g["h"] / 2, 0, br, al)
        if min(m_r, m_l) < 1e-6 * (m_r + m_l):
            R.skip("outside-domain: one-sided measure for a probability-step grid")
            return
    try:
        grid = G.build_grid(g, model)
    except G.OutsideDomain as exc:
        R.skip("outside-domain: " + str(exc))
        contracts.drain(R)
        return
    except ValueError as exc:
        # the constructor refuses the arguments (input validation): nothing is returned, nothing to judge
        contracts.drain(R)
        R.skip(f"refused-by-constructor[{g['ctor']}]: ValueError")
        R.klass(f"refused:{g['ctor']}-{g['dim']}d")
        return
    except Exception as exc:  # noqa: BLE001
        contracts.drain(R)
        R.violation(f"{g['ctor']}-{g['dim']}d-constructor-raises", f"{label}: grid constructor {g['ctor']} raises "
                    f"{type(exc).__name__}: {exc}", {"model": mspec, "grid": g})
        return
    R.klass(f"{g['ctor']}-{g['dim']}d")
    R.klass("model:" + label)
    # shared-axis vs per-axis storage
    if g["dim"] > 1:
        R.klass("storage:" + ("shared" if grid.axes[0] is grid.axes[1] else "per-axis"))
    if g["ctor"] in ("uniform", "geometric", "credit", "credit_asym"):
        _tail_checks(R, g, grid, model, mspec, label)
    if g["ctor"] == "probstep":
        _probstep_checks(R, g, grid, model, mspec, label)
    if g["ctor"] == "probstep":
        # a probability mid-point is undefined in a gap that carries no mass: such grids are outside the domain of the
        # refinement claim (the step-probability claim above is still judged)
        ax = np.asarray(grid.axes[0], dtype=float)
        tot = m_r + m_l
        for lo, hi in zip(ax[:-1], ax[1:]):
            if lo * hi > 0:
                mg, _ = Q.integrate_xn(dens, lo, hi, 0, br, al)
                if mg < 1e-9 * tot:
                    R.skip("outside-domain: probability-step grid with a massless gap (no probability mid-point)")
                    nref = 0
                    break
    # reading the origin index in an arithmetic expression leaves the grid as it is (0 stays at the stated origin index)
    o_before = list(grid.origin_coordinate) if g["dim"] > 1 else [grid.origin_coordinate.value]
    try:
        doubled = [2 * grid.origin_coordinate, grid.origin_coordinate * 2, grid.origin_coordinate + (1 if g["dim"] == 1 else [1] * g["dim"]), -grid.origin_coordinate]
        R.hit("origin_index_read_in_expressions")
        o_after = list(grid.origin_coordinate) if g["dim"] > 1 else [grid.origin_coordinate.value]
        d0 = list(doubled[0]) if g["dim"] > 1 else [doubled[0].value]
        if o_after != o_before or d0 != [2 * v for v in o_before]:
            R.violation("origin-index-changed-by-reading-it-in-an-expression", f"{label}: origin index {o_before} before, {o_after} after evaluating 2 * origin, origin * 2, "
                        f"origin + 1, -origin (2 * origin = {d0})", {"grid": g})
            for kk, pb in contracts.well_formed_problems(grid)[:1]:
                R.violation("grid-malformed-after-reading-its-origin-index", f"{label}: {pb}", {"grid": g})
            return
    except Exception as exc:  # noqa: BLE001
        R.violation("origin-index-arithmetic-raises", f"{label}: {type(exc).__name__}: {exc}", {"grid": g})
    sizes0 = [len(a) for a in grid.axes]
    holder = grid.origin_coordinate           # an alias taken before the refinements (as samplers do)
    o0 = list(holder) if g["dim"] > 1 else [holder.value]
    refine_calls = 0
    evals0 = contracts.LOG["refine_evals"]
    for _ in range(nref):
        if max(len(a) for a in grid.axes) > 4000:
            break
        try:
            refine_calls += 1
            grid.refine()
        except Exception as exc:  # noqa: BLE001
            R.violation(f"{g['ctor']}-refine-raises", f"{label}: {g['ctor']} grid.refine() raises {type(exc).__name__}: {exc}",
                        {"model": mspec, "grid": g})
            break
        R.klass("refinements")
    if contracts.LOG["refine_evals"] - evals0 < refine_calls and not contracts.LOG["violations"]:
        # a refine() the post-condition never saw decides nothing
        R.error("monitor not reached", f"{label}: {refine_calls} refine() call(s) on a {type(grid).__name__}, {contracts.LOG['refine_evals'] - evals0} "
                "post-condition evaluation(s)")
    contracts.drain(R, prefix=f"{g['ctor']}-")
    R.nontrivial_case(label, g["ctor"], g["dim"], {k: v for k, v in g.items() if not k.startswith("_")}, nref)
    R.sample({"model": label, "grid": {k: v for k, v in g.items()}, "refinements": nref, "sizes_level0": sizes0,
              "sizes_final": [len(a) for a in grid.axes], "h_final": grid.h})
