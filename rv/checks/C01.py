"""C01 -- CTMC jump rates are the Levy-measure masses of the grid cells (1-d and copula).

Monitors: record-only wrappers on the sampling factory (q vector, jump vector), the inversion closure
handed to the sampler, and -- for samplers that compute cell masses on the fly -- the exact law of the
built sampler measured black-box (rv.piecewise).  Oracle: quadrature of the INPUT model's own density on
cells recomputed by the harness from the axes; for copulas the corner-sum definition of the Levy measure
on quadrature tail integrals (rv.chain.CopulaMassOracle), exact marginal row sums, and the total.
"""
from __future__ import annotations

import itertools
import math

import numpy as np

from .. import chain as C, contracts, gridspec as G, samplers as S, workloads as W

ID = "C01"
NEEDS_DEPS = True
RULE = ("case = (model spec | copula-model spec, grid constructor + arguments, refinement level 0..k, sampling method "
        "accepted by the factory); every non-origin state's rate as handed to / realised by the sampler is compared with "
        "the quadrature mass of its cell; non-trivial = >= 2 states with positive oracle rate were compared; distinct = "
        "distinct (model label + parameters, grid arguments, level, method)")
ASSUMPTIONS = [
    "cells are recomputed by the harness from grid.axes with the grid's own middle(); quadrature (scipy quad) of the "
    "model density is the mass oracle: |rate - mass| <= 1e-8 |mass| + 1e-12 intensity + 10 err",
    "copulas: the library's copula callable F is trusted here (C11 judges it); tail integrals by quadrature of the "
    "truncated marginal densities; tolerance 1e-7 relative to the intensity per cell",
    "grids inside the C13 domain (>= 2 states per half-axis); n-d grids of at most 15 points per axis (2-d) / 9 (3-d)",
]
REQUIRED_COUNTERS = ["rate_comparisons_1d", "intensity_checks", "tiling_checks", "nd_cell_comparisons", "nd_row_sums",
                     "grid_init_postconditions", "infinite_variation_copula_chains", "second_model_on_the_same_grid", "chain_rebuilt_after_refining_the_same_grid", "model_object_used_by_an_earlier_chain",
                     "models_with_an_already_restricted_measure"]
MIN_NONTRIVIAL = {"quick": 60, "thorough": 400}
THOROUGH_ROUNDS = 5      # the thorough tier runs the generators this many times (different seeds)
SHARD_TIMEOUT = {"quick": 900, "thorough": 7200}


def gen_cases(tier, seed):
    rng = np.random.default_rng(seed + 100)
    thorough = tier == "thorough"
    cases = []
    fixed = [s for s in W.fixed_model_specs()]
    nrand = 10 if not thorough else 120
    models = fixed[::2] + fixed[1::4] + [W.gen_model_spec(rng) for _ in range(nrand)]
    maxlev = 3 if not thorough else 5
    i = 0
    for m in models:
        for ctor in G.CTORS_1D:
            if not thorough and (i % 3) and ctor in ("fixed", "geometric_bounds"):
                i += 1
                continue
            i += 1
            lev = int(rng.integers(0, maxlev + 1))
            if ctor == "probstep":
                lev = min(lev, 2)
            meths = list(C.METHODS_1D) if thorough or i % 5 == 0 else [C.METHODS_1D[i % 6], C.METHODS_1D[(i + 3) % 6]]
            cases.append({"model": m, "grid": G.gen_grid_spec(rng, ctor, 1), "level": lev, "methods": meths, "then_refine": bool(i % 3 == 0 and lev <= 2),
                          "after_narrow_chain": ctor in ("fixed", "geometric_bounds")})
            if ctor in ("fixed", "geometric_bounds") and i % 2 == 0:
                # the model handed to the chain already has its measure restricted to an interval (by the user, or because it is the model
                # of another chain) narrower than the grid: the rates are the masses of the cells under that restricted measure
                cases.append(dict(cases[-1], after_narrow_chain=False, then_refine=False, methods=meths[:2],
                                  pre_truncated=[W.r6(rng.uniform(0.3, 0.85)), W.r6(rng.uniform(0.3, 0.85))]))
    # copulas
    nnd = 14 if not thorough else 120
    kinds = ["clayton", "independent", "dependent", "clayton"]
    n2 = n3 = 0
    for j in range(nnd):
        dim = 2 if j % 3 else 3
        kind = str(rng.choice(kinds))      # (random: a modulo rule ties the kind to the dimension and grid cycles)
        fams = [str(rng.choice(["HEM", "MERTON", "VG", "CGMY"])) for _ in range(dim)]
        cm = W.gen_copula_model_spec(rng, dim=dim, kind=kind, families=fams)
        # infinite-variation models in dimension 2 (every third 2-d case); the 3-d constructor is too slow for them
        W.limit_variation(rng, cm, allow_infinite=(dim == 2 and j % 3 == 1))
        for ms in cm["margins"]:  # keep two-sided, not too thin margins
            if ms["family"] == "MERTON":
                ms["params"]["mu_j"] = min(ms["params"]["mu_j"], 0.05)
                ms["params"]["sigma_j"] = max(ms["params"]["sigma_j"], 0.08)
        if dim == 2:
            ctor = ["fixed", "uniform", "geometric", "geometric_bounds", "credit", "credit_asym"][n2 % 6]      # (own counters: j and the
            n2 += 1                                                                                            # dimension cycle are not coprime)
        else:
            ctor = ["fixed", "geometric", "geometric_bounds", "credit"][n3 % 4]
            n3 += 1
        g = G.gen_grid_spec(rng, ctor, dim)
        if ctor == "fixed":
            g["n"] = int(rng.integers(5, 12 if dim == 2 else 8))
            g["h"] = W.r6(W._logu(rng, 0.02, 0.2))
        if ctor == "uniform":
            g["h_div"] = W.r6(rng.uniform(2.5, 6.0))
        if ctor in ("geometric", "geometric_bounds"):
            g["n_side"] = int(rng.integers(2, 6 if dim == 2 else 4))
        cases.append({"model": cm, "grid": g, "level": int(rng.integers(0, 2)) if dim == 2 else 0,
                      "methods": ["INVERSION"] + (["BINARYSEARCHTREEADAPTED"] if j % 2 == 0 or thorough else []), "then_refine": bool(dim == 2 and j % 2 == 1)})
        if dim == 2 and ctor in ("fixed", "geometric_bounds"):
            # a second model of the same families on the very same (model-independent) grid, in the same process: rates must be
            # those of the second model (state shared between model instances, e.g. a cache keyed by the abscissa only)
            cm2 = W.gen_copula_model_spec(rng, dim=dim, kind=kind, families=fams)
            W.limit_variation(rng, cm2, allow_infinite=False)
            for ms in cm2["margins"]:
                if ms["family"] == "MERTON":
                    ms["params"]["mu_j"] = min(ms["params"]["mu_j"], 0.05)
                    ms["params"]["sigma_j"] = max(ms["params"]["sigma_j"], 0.08)
            cases[-1]["then"] = cm2
    return cases


def setup(R):
    contracts.install_grid_contracts()
    contracts.reset()
    return {}


def run_case(case, R, ctx):
    R.evaluation()
    mspec = case["model"]
    try:
        run = _run_nd if "margins" in mspec else _run_1d
        out = run(case, R)
        if out and case.get("then_refine") and case["grid"]["ctor"] != "probstep":
            # the couplings build a chain on a grid, refine that grid IN PLACE and build the next chain on it: same claims one level up
            model, grid, g = out
            grid.refine()
            R.hit("chain_rebuilt_after_refining_the_same_grid")
            run(dict(case, level=case["level"] + 1, methods=case["methods"][:1]), R, prebuilt=(model, grid, g))
        if "margins" in mspec and case.get("then"):
            R.hit("second_model_on_the_same_grid")
            _run_nd(dict(case, model=case["then"]), R)
    finally:
        contracts.drain(R, prefix="grid-contract-")


# --------------------------------------------------------------------------------------------------------
def _run_1d(case, R, prebuilt=None):
    mspec, lev = case["model"], case["level"]
    label = W.model_label(mspec)
    try:
        model, grid, g = prebuilt or C.build_grid_and_model(mspec, case["grid"], lev)
    except (G.OutsideDomain, ValueError) as exc:
        R.skip("outside-domain: " + type(exc).__name__)
        return
    if max(len(a) for a in grid.axes) > 3000:
        R.skip("grid-too-large")
        return
    ctor = g["ctor"]
    oracle_model = model
    if case.get("after_narrow_chain") and prebuilt is None and ctor in ("fixed", "geometric_bounds"):
        # the user's model object first serves a chain on a narrow grid (it must come out of it unchanged); the oracle reads the density
        # of an identical model built apart
        oracle_model = W.build_model(mspec)
        try:
            narrow = G.build_grid({"ctor": "fixed", "dim": 1, "h": float(g["_h"]) / 3.0, "n": 7}, model)
            C.build_chain(model, narrow, "ALIAS", False)
            R.hit("model_object_used_by_an_earlier_chain")
        except Exception:  # noqa: BLE001  (the narrow chain itself is not the subject)
            pass
    rates, errs, lo, hi, problems = C.oracle_rates_1d(mspec, oracle_model, grid)
    if case.get("pre_truncated") and prebuilt is None:
        from ..oracles import quadrature as Q

        tl, tr = float(case["pre_truncated"][0] * grid.axes[0][0]), float(case["pre_truncated"][1] * grid.axes[0][-1])
        try:
            model.truncate_levy_measure((tl, tr))
        except Exception as exc:  # noqa: BLE001
            R.violation("truncate-levy-measure-raises", f"{label}: {type(exc).__name__}: {exc}", {"model": mspec})
            return
        R.hit("models_with_an_already_restricted_measure")
        oracle_model = W.build_model(mspec)
        dens, alpha_, br_ = oracle_model.levy_triplet.nu.__call__, W.activity_index(mspec), W.density_breakpoints(mspec)
        for k in range(rates.size):
            a_, b_ = max(float(lo[k]), tl), min(float(hi[k]), tr)
            if k == grid.origin_coordinate.value:
                continue
            rates[k], errs[k] = (0.0, 0.0) if a_ >= b_ else Q.integrate_xn(dens, a_, b_, 0, br_, alpha_)
    o = grid.origin_coordinate.value
    n = rates.size
    R.hit("tiling_checks")
    for pb in problems:
        R.violation(f"{ctor}-cell-boundary-outside-gap", f"{label}/{ctor} level {lev}: {pb}", {"model": mspec, "grid": g})
    # tiling: consecutive cells share their boundary, the union is [l, r] minus the central cell, state inside its cell
    axis = np.asarray(grid.axes[0], dtype=float)
    if not (np.all(lo[1:] == hi[:-1]) and lo[0] == axis[0] and hi[-1] == axis[-1] and np.all(lo <= axis) and np.all(axis <= hi)):
        R.violation(f"{ctor}-cells-do-not-tile", f"{label}/{ctor}: recomputed cells do not tile the truncated support", {"grid": g})
    lam_oracle = float(rates.sum())
    lam_err = float(errs.sum())
    if lam_oracle < W.resolution_floor(mspec):
        R.skip("chain intensity below 1e-9 (or a millionth of the model's intensity): cell masses under the resolution of the closed forms")
        return
    positive = int(np.sum(rates > 1e-12 * lam_oracle))
    # closed-form masses of a finite-activity measure are differences of distribution functions: their absolute rounding is on the
    # scale of the total mass of the MODEL (which can be far larger than the mass the grid carries)
    abs_floor = 4e-16 * float(mspec["params"]["intensity"]) if mspec["family"] in ("HEM", "MERTON") else 0.0
    for method in case["methods"]:
        R.klass(f"1d:{ctor}:{method}")
        R.klass("model:" + label)
        R.klass(f"level:{lev}")
        try:
            proc, rec = C.build_chain(model, grid, method, False)
        except Exception as exc:  # noqa: BLE001
            R.violation(f"1d-{method}-constructor-raises", f"{label}/{ctor} level {lev}: MarkovChainProcess(method={method}) raises "
                        f"{type(exc).__name__}: {exc}", {"model": mspec, "grid": g, "level": lev})
            continue
        lam = float(proc.intensity_of_jumps)
        R.hit("intensity_checks")
        tol_l = 1e-8 * lam_oracle + 10 * lam_err
        if not (abs(lam - lam_oracle) <= tol_l):
            R.violation(f"1d-{ctor}-intensity", f"{label}/{ctor} level {lev}: intensity_of_jumps = {lam!r} but the cells outside the "
                        f"central one carry {lam_oracle!r} (quadrature)", {"model": mspec, "grid": g, "level": lev})
        # the truncated copy held by the process must be truncated at the grid bounds
        tr = getattr(proc.model.levy_triplet.nu, "truncations", None)
        if tr is None or tuple(float(v) for v in tr) != (float(axis[0]), float(axis[-1])):
            R.violation("1d-truncation-not-grid-bounds", f"{label}/{ctor}: chain model truncated at {tr}, grid bounds "
                        f"({axis[0]}, {axis[-1]})", {"grid": g})
        obs = _observed_rates_1d(method, proc, rec, grid, lam, rates, R)
        if obs is None:
            continue
        kind, obs = obs
        tol_meas = 0.0 if kind == "recorded" else (3e-13 * lam if method != "TABLE" else 8 * 2.0 ** -24 * lam)
        if kind == "measured" and ctor == "probstep":
            # the sampler computes its own cell masses on the fly; on a grid whose own middle() is not the arithmetic mean the
            # property only asks that SOME tiling with each state inside its cell explains the rates: running sums from either
            # end must fall between the masses up to the state and up to its outer neighbour
            _tiling_exists(R, label, ctor, lev, method, mspec, g, model, axis, o, obs, lam_oracle, tol_meas)
            if positive >= 2:
                R.nontrivial_case(label, mspec["params"], {k: v for k, v in g.items() if not k.startswith("_")}, lev, method)
            continue
        bad = []
        for k in range(n):
            if k == o:
                if obs[k] != 0.0 and abs(obs[k]) > tol_meas:
                    R.violation(f"1d-{method}-origin-has-rate", f"{label}/{ctor}: the origin state has rate {obs[k]!r}", {"grid": g})
                continue
            R.hit("rate_comparisons_1d")
            tol = 1e-8 * rates[k] + 1e-12 * lam_oracle + 10 * errs[k] + tol_meas + abs_floor
            if obs[k] < -1e-13 * lam_oracle:
                R.violation(f"1d-{method}-negative-rate", f"{label}/{ctor}: state {axis[k]!r} has negative rate {obs[k]!r}", {"grid": g})
            if not (abs(obs[k] - rates[k]) <= tol):
                bad.append(k)
        if bad:
            k = bad[0]
            where = "boundary-state" if k in (0, n - 1) else ("next-to-origin" if k in (o - 1, o + 1) else "interior-state")
            R.violation(f"1d-{ctor}-{method}-rate-{where}", f"{label}/{ctor} level {lev} method {method}: {len(bad)} state(s) whose rate "
                        f"differs from the mass of the cell; e.g. state {axis[k]!r} cell ({lo[k]!r}, {hi[k]!r}): rate {obs[k]!r}, "
                        f"quadrature mass {rates[k]!r} (+-{errs[k]:.1e}) [{kind}]",
                        {"model": mspec, "grid": g, "level": lev, "method": method, "state_index": k, "n_bad": len(bad)})
        s = float(np.sum(obs))
        if kind == "recorded" and not (abs(s - lam) <= 1e-10 * lam):
            R.violation(f"1d-{method}-rates-do-not-sum-to-intensity", f"{label}/{ctor}: sum of rates {s!r} != intensity {lam!r}", {"grid": g})
        if positive >= 2:
            R.nontrivial_case(label, mspec["params"], {k: v for k, v in g.items() if not k.startswith("_")}, lev, method)
    R.sample({"model": label, "grid": {k: v for k, v in g.items()}, "level": lev, "states": int(n), "intensity_oracle": lam_oracle,
              "first_cells": [[float(lo[k]), float(axis[k]), float(hi[k]), float(rates[k])] for k in range(min(3, n))]})
    return model, grid, g


def _tiling_exists(R, label, ctor, lev, method, mspec, g, model, axis, o, obs, lam, tol_meas):
    from ..oracles import quadrature as Q

    dens = model.levy_triplet.nu.__call__
    alpha, br = W.activity_index(mspec), W.density_breakpoints(mspec)
    n = axis.size
    run = 0.0
    for k in range(0, o):          # left side, from the left end inwards
        R.hit("rate_comparisons_1d")
        run += obs[k]
        lo_m, e1 = Q.integrate_xn(dens, float(axis[0]), float(axis[k]), 0, br, alpha)
        outer = float(axis[k + 1]) if k + 1 < o else float(axis[o - 1]) / 2     # the central cell starts at -h/2
        hi_m, e2 = Q.integrate_xn(dens, float(axis[0]), outer, 0, br, alpha)
        tol = 1e-8 * lam + 10 * (e1 + e2) + tol_meas * (k + 1)
        if not (lo_m - tol <= run <= hi_m + tol):
            R.violation(f"1d-{ctor}-{method}-no-tiling-explains-rates", f"{label}/{ctor} level {lev}: cumulated rate up to state "
                        f"{axis[k]!r} is {run!r}, outside [{lo_m!r}, {hi_m!r}]", {"model": mspec, "grid": g, "level": lev})
            return
    run = 0.0
    for k in range(n - 1, o, -1):  # right side, from the right end inwards
        R.hit("rate_comparisons_1d")
        run += obs[k]
        lo_m, e1 = Q.integrate_xn(dens, float(axis[k]), float(axis[-1]), 0, br, alpha)
        inner = float(axis[k - 1]) if k - 1 > o else float(axis[o + 1]) / 2
        hi_m, e2 = Q.integrate_xn(dens, inner, float(axis[-1]), 0, br, alpha)
        tol = 1e-8 * lam + 10 * (e1 + e2) + tol_meas * (n - k)
        if not (lo_m - tol <= run <= hi_m + tol):
            R.violation(f"1d-{ctor}-{method}-no-tiling-explains-rates", f"{label}/{ctor} level {lev}: cumulated rate from state "
                        f"{axis[k]!r} up is {run!r}, outside [{lo_m!r}, {hi_m!r}]", {"model": mspec, "grid": g, "level": lev})
            return
    # both sides exhausted: the innermost boundary must be the central cell's (+-h/2): totals per side
    left, e1 = Q.integrate_xn(dens, float(axis[0]), float(axis[o - 1]) / 2, 0, br, alpha)
    right, e2 = Q.integrate_xn(dens, float(axis[o + 1]) / 2, float(axis[-1]), 0, br, alpha)
    if not (abs(float(np.sum(obs[:o])) - left) <= 1e-8 * lam + 10 * e1 + tol_meas * n and abs(float(np.sum(obs[o + 1:])) - right) <= 1e-8 * lam + 10 * e2 + tol_meas * n):
        R.violation(f"1d-{ctor}-{method}-side-totals", f"{label}/{ctor}: left/right totals {float(np.sum(obs[:o]))!r}/"
                    f"{float(np.sum(obs[o + 1:]))!r} differ from the masses outside the central cell {left!r}/{right!r}", {"grid": g})


def _observed_rates_1d(method, proc, rec, grid, lam, oracle_rates, R):
    n = len(grid.axes[0])
    o = grid.origin_coordinate.value
    if method in ("ALIAS", "TABLE", "BINARYSEARCHTREE", "HUFFMANNTREE"):
        if not rec.jump_vectors or not rec.q_vectors:
            R.violation(f"1d-{method}-factory-not-observed", "the factory did not go through create_q_vector/create_vec_jump_matrix", None)
            return None
        R.hit("recorded_jump_vectors")
        jv = rec.jump_vectors[-1]
        return "recorded", jv * lam
    if method == "INVERSION":
        f = proc.sampling.probability_to_jump_to_state
        R.hit("inversion_closure_calls", n - 1)
        obs = np.zeros(n)
        for k in range(n):
            if k != o:
                obs[k] = float(f(k - o)) * lam
        return "recorded", obs
    if method == "BINARYSEARCHTREEADAPTED1D":
        if n > 600:
            R.skip("bsta1d-grid-too-large-for-law-measurement")
            return None
        target = oracle_rates / oracle_rates.sum()
        M = S.measure_sampler(method, proc.sampling, n, target)
        R.hit("measured_laws")
        obs = np.zeros(n)
        for s_, length in M.lengths().items():
            k = s_ + o
            if not (0 <= k < n):
                R.violation("1d-BINARYSEARCHTREEADAPTED1D-state-outside-grid", f"sampler returns increment {s_}", None)
                continue
            obs[k] = length * lam
        return "measured", obs
    raise ValueError(method)


# --------------------------------------------------------------------------------------------------------
def _run_nd(case, R, prebuilt=None):
    cm, lev = case["model"], case["level"]
    label = W.copula_label(cm)
    try:
        model, grid, g = prebuilt or C.build_grid_and_model(cm, case["grid"], lev)
        if not model.jump_of_finite_variation():
            R.hit("infinite_variation_copula_chains")
    except (G.OutsideDomain, ValueError) as exc:
        R.skip("outside-domain: " + type(exc).__name__)
        return
    d = grid.dimension
    sizes = [len(a) for a in grid.axes]
    if math.prod(sizes) > (400 if d == 2 else 800):
        R.skip("nd-grid-too-large")
        return
    ctor = g["ctor"]
    origin = list(grid.origin_coordinate)
    bounds = []
    for k in range(d):
        ax = np.asarray(grid.axes[k], dtype=float)
        mids = [0.5 * (float(ax[i]) + float(ax[i + 1])) for i in range(ax.size - 1)]
        bounds.append((np.array([ax[0]] + mids), np.array(mids + [ax[-1]])))
    R.hit("tiling_checks")
    # cross-check the harness boundaries against the grid's own middle / left_point / right_point on a few states
    from rpylib.grid.grid import Coordinates

    for idx in itertools.islice(itertools.product(*[range(s) for s in sizes]), 0, None, max(1, math.prod(sizes) // 25)):
        c = Coordinates(list(idx))
        a = grid.middle(grid.left_point(c), grid[c])
        b = grid.middle(grid[c], grid.right_point(c))
        for k in range(d):
            if float(a[k]) != float(bounds[k][0][idx[k]]) or float(b[k]) != float(bounds[k][1][idx[k]]):
                R.violation(f"nd-{ctor}-cell-of-state-differs", f"{label}: grid cell of state {idx} is ({a}, {b}), harness "
                            f"expects axis {k}: ({bounds[k][0][idx[k]]}, {bounds[k][1][idx[k]]})", {"grid": g})
                break
    # the chain restricts the joint Levy measure to the box: cells inside the box keep their mass under the
    # UN-truncated joint measure (copula of the un-truncated marginal tail integrals)
    oracle = C.CopulaMassOracle(cm, model.copula, model.models, [(-math.inf, math.inf)] * d)
    states = [s for s in itertools.product(*[range(n) for n in sizes]) if list(s) != origin]
    want = {}
    for s in states:
        a = [float(bounds[k][0][s[k]]) for k in range(d)]
        b = [float(bounds[k][1][s[k]]) for k in range(d)]
        want[s] = oracle.mass(a, b)
    lam_oracle = sum(want.values())
    if lam_oracle < W.resolution_floor(cm):
        R.skip("chain intensity below 1e-9 (or a millionth of the model's intensity): cell masses under the resolution of the closed forms")
        return
    # marginal row sums by quadrature (truncated margins): exact in the truncated model
    for method in case["methods"]:
        R.klass(f"{d}d:{ctor}:{method}")
        R.klass("copula:" + label)
        try:
            proc, rec = C.build_chain(model, grid, method, True)
        except Exception as exc:  # noqa: BLE001
            R.violation(f"nd-{method}-constructor-raises", f"{label}/{ctor}: MarkovChainLevyCopula(method={method}) raises "
                        f"{type(exc).__name__}: {exc}", {"model": cm, "grid": g})
            continue
        lam = float(proc.intensity_of_jumps)
        R.hit("intensity_checks")
        if not (abs(lam - lam_oracle) <= 1e-7 * lam_oracle + 100 * oracle.max_err):
            R.violation(f"nd-{ctor}-intensity", f"{label}/{ctor}: intensity_of_jumps = {lam!r}, harness mass of the complement of the "
                        f"central cell = {lam_oracle!r}", {"model": cm, "grid": g, "level": lev})
        obs = {}
        if method == "INVERSION":
            f = proc.sampling.probability_to_jump_to_state
            for s in states:
                inc = tuple(si - oi for si, oi in zip(s, origin))
                obs[s] = float(f(inc)) * lam
            kind = "recorded"
        else:
            ps = float(proc.sampling.uniform.high)      # the sampler draws its uniform in [0, high)
            nst = len(states)
            f1 = S.single_u_function(method, proc.sampling)
            from .. import piecewise as PW

            def f_safe(u):
                try:
                    return f1(u * ps)
                except Exception as exc:  # noqa: BLE001  (a raise on a sliver of uniforms is C02's subject)
                    return ("raises", type(exc).__name__)

            M = PW.measure(f_safe, PW.standard_probes(nst, None, factor=12))
            R.hit("measured_laws")
            for inc, length in M.lengths().items():
                if inc and inc[0] == "raises":
                    R.hit("measured_sampler_raises_on_a_sliver")
                    obs[("raises",)] = obs.get(("raises",), 0.0) + length * lam
                    continue
                s = tuple(i + oi for i, oi in zip(inc, origin))
                obs[s] = obs.get(s, 0.0) + length * lam
            kind = "measured"
            if not (abs(ps - 1.0) <= 1e-9):
                R.violation("nd-BINARYSEARCHTREEADAPTED-bucket-probabilities-do-not-sum-to-1", f"{label}: sum {ps!r}", {"grid": g})
            if not (abs(float(proc.sampling.intensity_of_jumps) - lam) <= 1e-10 * lam):
                R.violation("nd-BINARYSEARCHTREEADAPTED-intensity-differs", f"{label}: sampler intensity "
                            f"{proc.sampling.intensity_of_jumps!r} != process intensity {lam!r}", {"grid": g})
        bad = []
        tol_meas = 0.0 if kind == "recorded" else 1e-11 * lam
        for s in states:
            R.hit("nd_cell_comparisons")
            o_ = obs.get(s, 0.0)
            w = want[s]
            if o_ < -1e-13 * lam_oracle:
                R.violation(f"nd-{method}-negative-rate", f"{label}/{ctor}: state {s} has negative rate {o_!r}", {"grid": g})
            if not (abs(o_ - w) <= 1e-7 * lam_oracle + 100 * oracle.max_err + tol_meas):
                bad.append(s)
        for s in obs:
            if s not in want and abs(obs[s]) > tol_meas:   # (an exact "never the origin" claim is C02's)
                R.violation(f"nd-{method}-inadmissible-state", f"{label}/{ctor}: rate {obs[s]!r} on state {s} (origin or outside)", {"grid": g})
        if bad:
            s = bad[0]
            parity = "axis-state" if sum(1 for si, oi in zip(s, origin) if si == oi) else "off-axis-state"
            R.violation(f"nd-{ctor}-{method}-rate-{parity}", f"{label}/{ctor} level {lev} method {method}: {len(bad)} cell(s) whose rate "
                        f"differs from the harness mass; e.g. state {s}: rate {obs.get(s, 0.0)!r}, mass {want[s]!r} [{kind}]",
                        {"model": cm, "grid": g, "level": lev, "method": method, "n_bad": len(bad)})
        # row sums: the rates of all states sharing one coordinate sum to the marginal mass of that 1-d cell minus the
        # mass whose other coordinates fall outside the box (a-priori bound: the other margins' tail masses)
        tails = [abs(oracle.U(k, float(grid.truncations[k][1]))) + abs(oracle.U(k, float(grid.truncations[k][0]))) for k in range(d)]
        for k in range(d):
            slack = sum(t for j, t in enumerate(tails) if j != k)
            for i in range(sizes[k]):
                if i == origin[k]:
                    continue
                R.hit("nd_row_sums")
                row = sum(v for s, v in obs.items() if s[k] == i)
                marg = abs(oracle.U(k, float(bounds[k][0][i])) - oracle.U(k, float(bounds[k][1][i])))
                tol = 1e-7 * lam_oracle + 100 * oracle.max_err + tol_meas * sizes[k]
                if not (marg - min(slack, marg) - tol <= row <= marg + tol):
                    R.violation(f"nd-{ctor}-{method}-row-sum", f"{label}/{ctor}: rates of the states with coordinate {k} = {i} sum to "
                                f"{row!r}, marginal mass of that cell = {marg!r}, mass allowed outside the box <= {slack!r}",
                                {"model": cm, "grid": g})
                    break
        ssum = sum(obs.values())
        if not (abs(ssum - lam) <= 1e-9 * lam + tol_meas * len(states)):
            R.violation(f"nd-{method}-rates-do-not-sum-to-intensity", f"{label}/{ctor}: sum of rates {ssum!r} != intensity {lam!r}", {"grid": g})
        if sum(1 for v in want.values() if v > 1e-12 * lam_oracle) >= 2:
            R.nontrivial_case(label, cm, {k: v for k, v in g.items() if not k.startswith("_")}, lev, method)
    R.sample({"copula_model": label, "margins": [W.model_label(m) for m in cm["margins"]], "grid": g, "level": lev,
              "states": len(states), "intensity_oracle": lam_oracle})
    return model, grid, g
