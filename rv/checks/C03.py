"""C03 -- level coupling keeps the coarse path in the previous level's law (telescoping).

Monitors: (a) the coupling kernel P(fine increment -> coarse state) of the real coupling objects measured exactly
as a function of the coupling uniform (scripted uniform + rv.piecewise) after real next_level() calls; (b) recorded
level-(l-1) drift / diffusion versus what the level-l coupling uses for its coarse component; (c) a coupled
simulation under logged variates whose coarse jump path is replayed through the measured kernel.
Oracle: independent cell masses (quadrature / corner-sum) of the fine and coarse grids: conservation of rates.
"""
from __future__ import annotations

import itertools
import math

import numpy as np

from .. import chain as C, gridspec as G, piecewise as PW, samplers as S, workloads as W

ID = "C03"
RULE = ("case = (model | copula model, grid constructor + arguments, sampling method, number of levels); at each level l >= 1 "
        "(after the real next_level): every fine increment's kernel is measured; conservation sum_x rate_f(x) P(x->y) = "
        "rate_c(y) for every coarse y, locality, coarse drift/diffusion = recorded level l-1, same Brownian increments, coarse "
        "path = replay of the fine increments through the kernel; non-trivial = level with >= 2 odd increments of positive "
        "rate; distinct = distinct (model, grid, method, level)")
ASSUMPTIONS = [
    "rates on both grids are the independent cell masses of C01 (quadrature / corner-sum on quadrature tail integrals)",
    "conservation tolerance 1e-8 relative to the intensity (1-d), 1e-6 (copula)",
    "copulas: finite-variation margins, level-0 grids of at most 7 points per axis, levels 1..2",
]
REQUIRED_COUNTERS = ["kernels_measured", "conservation_checks", "coarse_drift_checks", "coarse_diffusion_checks",
                     "coupled_paths_replayed", "nd_kernels_measured", "infinite_variation_copula_chains", "sde_coupling_levels", "sde_coupled_libor_paths"]
MIN_NONTRIVIAL = {"quick": 30, "thorough": 250}
THOROUGH_ROUNDS = 2      # the thorough tier runs the generators this many times (different seeds)
SHARD_TIMEOUT = {"quick": 900, "thorough": 7200}


def gen_cases(tier, seed):
    rng = np.random.default_rng(seed + 300)
    thorough = tier == "thorough"
    cases = []
    fixed = W.fixed_model_specs()
    models = fixed[::2] + [W.gen_model_spec(rng) for _ in range(6 if not thorough else 80)]
    i = 0
    for m in models:
        for ctor in (G.CTORS_1D if thorough else [G.CTORS_1D[(i + k) % 6] for k in (0, 3)]):
            i += 1
            g = G.gen_grid_spec(rng, ctor, 1)
            if ctor == "uniform":
                g["h_div"] = W.r6(rng.uniform(2.5, 8.0))
            if ctor == "fixed":
                g["n"] = int(rng.integers(5, 16))
            if ctor in ("geometric", "geometric_bounds"):
                g["n_side"] = int(rng.integers(2, 7))
            if ctor == "probstep":
                g["pstep"] = W.r6(W._logu(rng, 0.04, 0.2))
            cases.append({"model": m, "grid": g, "method": C.METHODS_1D[i % 6], "levels": 2 if not thorough else 3,
                          "mode": ["fixed", "jumptimes", "maxstep"][i % 3], "seed": int(rng.integers(2**31))})
    # the SDE coupling built on the 1-d coupling: coarse driver drift / diffusion of level l-1 over repeated refinements
    for j in range(5 if not thorough else 25):
        # (the first driver has jumps of infinite variation: the Brownian scaling changes from level to level)
        cases.append({"sde": True, "model": W.gen_model_spec(rng, ["CGMY", "HEM", "VG", "MERTON", "CGMY"][j % 5], "1<y<2" if j % 5 == 0 else None, exp=False), "levels": 3,
                      "grid": {"ctor": "fixed", "dim": 1, "h": W.r6(rng.uniform(0.05, 0.15)), "n": int(rng.choice([5, 7, 9]))}, "seed": int(rng.integers(2**31))})
    for j in range(8 if not thorough else 40):
        dim = 2 if j % 4 else 3
        # (cycle of length 5: coprime with the dimension, constructor and method cycles -- every combination comes up)
        cm = W.gen_copula_model_spec(rng, dim=dim, kind=["clayton", "dependent", "clayton", "independent", "clayton"][j % 5])
        W.limit_variation(rng, cm, allow_infinite=(dim == 2 and j % 4 == 1), y_hi=0.7)
        for ms in cm["margins"]:
            if ms["family"] == "MERTON":
                ms["params"]["mu_j"] = min(ms["params"]["mu_j"], 0.05)
                ms["params"]["sigma_j"] = max(ms["params"]["sigma_j"], 0.08)
        ctor = ["fixed", "geometric_bounds", "credit_asym"][j % 3]      # (the symmetric credit grid has 11 points per axis: too many kernels)
        g = G.gen_grid_spec(rng, ctor, dim)
        if ctor == "fixed":
            g["n"] = 5 if dim == 3 else int(rng.choice([5, 7]))
            g["h"] = W.r6(W._logu(rng, 0.03, 0.2))
        if ctor == "geometric_bounds":
            g["n_side"] = 2 if dim == 3 else int(rng.choice([2, 3]))
        cases.append({"model": cm, "grid": g, "method": C.METHODS_ND[j % 2], "levels": 1 if (dim == 3 or not thorough) else 2,
                      "mode": ["jumptimes", "fixed"][j % 2], "seed": int(rng.integers(2**31))})
    return cases


class LoggedUniform:
    """class-level replacement of Uniform.sample: seeded, logs (size, values) of every draw"""

    def __init__(self, seed):
        self.rng = np.random.default_rng(seed)
        self.log = []
        self.force = None

    def __call__(self, inst, size=1):
        inst.sampling_cost += size
        if self.force is not None:
            out = np.full(size, self.force, dtype=float)
        else:
            out = self.rng.random(size) * (inst.high - inst.low) + inst.low
        self.log.append((size, out.copy()))
        return out


def _product(mode):
    from rpylib.product.product import Product
    from rpylib.product.underlying import Spot
    from rpylib.product.payoff import Forward, PayoffDates

    pay = Forward(strike=0.0)
    if mode != "fixed":
        pay.payoff_dates_type = PayoffDates.STOCHASTIC
    return Product(payoff_underlying=Spot(), payoff=pay, maturity=1.0)


def run_case(case, R):
    R.evaluation()
    from unittest import mock
    from rpylib.distribution.univariate.uniform import Uniform
    from rpylib.distribution.univariate.poisson import Poisson

    src = LoggedUniform(case["seed"])
    counts = iter(itertools.cycle([3, 0, 5, 1, 2, 7]))

    def poisson_sample(self, size=1):
        return np.array([next(counts) for _ in range(size)])

    with mock.patch.object(Uniform, "sample", lambda inst, size=1: src(inst, size)), \
            mock.patch.object(Poisson, "sample", poisson_sample):
        np.random.seed(case["seed"] % (2**31))
        if case.get("sde"):
            _run_sde(case, R)
        elif "margins" in case["model"]:
            _run_nd(case, R, src)
        else:
            _run_1d(case, R, src)


def _run_sde(case, R):
    """CouplingSDE over three refinements: at level l the coarse component is driven with the drift and the diffusion coefficient of the
    level-(l-1) chain, computed here by an independent MarkovChainProcess on a freshly built grid refined l-1 times"""
    import logging
    import warnings

    warnings.simplefilter("ignore")
    logging.disable(logging.CRITICAL)
    from rpylib.model.levydrivensde.levydrivensde import LevyDrivenSDEModel, Constant
    from rpylib.process.coupling.couplingsde import CouplingSDE
    from rpylib.process.markovchain.markovchain import MarkovChainProcess
    from rpylib.montecarlo.path import MLMCPath
    from rpylib.product.product import Product
    from rpylib.product.underlying import Spot
    from rpylib.product.payoff import Forward

    mspec, g = case["model"], dict(case["grid"])
    label = W.model_label(mspec)
    wit = {"case": case}
    product = Product(payoff_underlying=Spot(), payoff=Forward(strike=0.0), maturity=0.8)
    meth = C.sampling_method("BINARYSEARCHTREEADAPTED1D")
    try:
        driver = W.build_model(mspec)
        model = LevyDrivenSDEModel(driver=driver, x0=1.0, a=Constant(m=1, d=1, constant=0.7))
        cp = CouplingSDE(model=model, grid=G.build_grid(dict(g), driver), method=meth)
        cp.initialisation(product)
        cp.pre_computation(2, product)
        pms = [MLMCPath(deterministic_path=cp.fine_process.deterministic_path, activate_spot_underlying=False)]
    except Exception as exc:  # noqa: BLE001
        R.violation("sde-coupling-setup-raises", f"{label}: {type(exc).__name__}: {exc}", wit)
        return

    def reference(level):
        grid = G.build_grid(dict(g), W.build_model(mspec))
        for _ in range(level):
            grid.refine()
        ref = MarkovChainProcess(model=W.build_model(mspec), method=meth, grid=grid)
        ref.initialisation(product)
        return float(np.asarray(ref.process_drift()).reshape(-1)[0]), float(ref.equivalent_diffusion_coefficient)

    for level in range(1, case["levels"] + 1):
        try:
            cp.next_level(2, pms, product)
        except Exception as exc:  # noqa: BLE001
            R.violation("sde-coupling-next-level-raises", f"{label}: level {level}: {type(exc).__name__}: {exc}", wit)
            return
        want_c, want_sig_c = reference(level - 1)
        want_f, want_sig_f = reference(level)
        R.hit("sde_coupling_levels")
        drv = cp.driver_coupling_process
        got_sig_f, got_sig_c = float(drv.equivalent_diffusion_coefficient_fine), float(drv.equivalent_diffusion_coefficient_coarse)
        if not (abs(got_sig_f - want_sig_f) <= 1e-10 * (1 + want_sig_f) and abs(got_sig_c - want_sig_c) <= 1e-10 * (1 + want_sig_c)):
            R.violation("sde-coupling-diffusion-coefficients-not-those-of-the-levels", f"{label}: SDE coupling at level {level}: the driver coupling scales the Brownian increments "
                        f"of (fine, coarse) by ({got_sig_f!r}, {got_sig_c!r}); chains built apart at levels {level} and {level - 1} have equivalent diffusion "
                        f"coefficients ({want_sig_f!r}, {want_sig_c!r})", wit)
            return
        got_c = float(np.asarray(cp.mc_drift_2h, dtype=float).reshape(-1)[0])
        got_f = float(np.asarray(cp.mc_drift_h, dtype=float).reshape(-1)[0])
        if not (abs(got_c - want_c) <= 1e-10 * (1 + abs(want_c)) and abs(got_f - want_f) <= 1e-10 * (1 + abs(want_f))):
            R.violation("sde-coupling-coarse-drift-not-level-below", f"{label}: SDE coupling at level {level}: driver drifts (fine, coarse) = ({got_f!r}, {got_c!r}), "
                        f"chains built apart at levels {level} and {level - 1} have drifts ({want_f!r}, {want_c!r})", wit)
            return
    # ---- a model whose sde drift depends on the state (Libor): along simulated coupled paths the coarse component is the scheme of the level
    #      below run on the coarse driver path -- its own drifts, evaluated at its own state
    from rpylib.model.levydrivensde.levylibormodel import LevyLiborModel
    from .C16 import _euler

    rng = np.random.default_rng(int(case.get("seed", 0)) + 31)
    try:
        driver2 = W.build_model(mspec)
        if not driver2.finite_first_moment():
            raise ValueError("driver without first moment")
        m = int(rng.integers(2, 4))
        t0 = float(0.8 * rng.uniform(0.2, 1.6))
        libor = LevyLiborModel(libor_rates=rng.uniform(0.01, 0.06, size=m), tenors=[t0 + 0.5 * k for k in range(m + 1)], sigma=rng.uniform(0.2, 1.0, size=(m, 1)), driver=driver2)
        cp2 = CouplingSDE(model=libor, grid=G.build_grid(dict(g), driver2), method=meth)
        cp2.initialisation(product)
        cp2.pre_computation(3, product)
        pms2 = [MLMCPath(deterministic_path=cp2.fine_process.deterministic_path, activate_spot_underlying=False)]
        x0v = np.atleast_1d(np.asarray(libor.x0, dtype=float))
        for level in range(1, 3):
            cp2.next_level(3, pms2, product)
            cap = []
            o2 = cp2.driver_coupling_process.simulate_one_path_with_coupling

            def c2(o2=o2, cap=cap):
                p = o2()
                cap.append(p)
                return p

            cp2.driver_coupling_process.simulate_one_path_with_coupling = c2
            for _ in range(3):
                path = cp2.simulate_one_path_with_coupling()
                drv = cap[-1]
                times = np.asarray(drv.jump_times, dtype=float)
                val = np.asarray(path.value(), dtype=float)
                R.hit("sde_coupled_libor_paths")
                for comp, mu in ((0, cp2.mc_drift_h), (1, cp2.mc_drift_2h)):
                    want = _euler(libor, cp2.fine_process.sde_drift, mu, times, np.asarray(drv.jump_path)[comp], np.asarray(drv.diffusion_path)[comp], x0v)
                    got = np.atleast_2d(val[comp]) + x0v.reshape(-1, 1)
                    if got.shape != want.shape or not (np.max(np.abs(got - want)) <= 1e-10 * (1 + np.max(np.abs(want)))):
                        R.violation(f"sde-coupling-{'fine' if comp == 0 else 'coarse'}-component-not-its-own-scheme-libor", f"{label}: Libor SDE coupling at level {level}: the "
                                    f"{'fine' if comp == 0 else 'coarse'} component differs from the Euler scheme run on its own driver path with its own drifts "
                                    f"(largest difference {float(np.max(np.abs(got - want))) if got.shape == want.shape else 'shape'})", wit)
                        return
            cp2.driver_coupling_process.simulate_one_path_with_coupling = o2
    except ValueError as exc:
        R.skip(f"libor-sde-coupling-not-built: {str(exc)[:60]}")
    except Exception as exc:  # noqa: BLE001
        R.violation("sde-coupling-libor-raises", f"{label}: {type(exc).__name__}: {exc}", wit)
        return
    R.nontrivial_case("sde", label, case["grid"]["h"], case["grid"]["n"])


def _oracle_1d(mspec, model, grid):
    rates, errs, lo, hi, _ = C.oracle_rates_1d(mspec, model, grid)
    return np.asarray(grid.axes[0], dtype=float).copy(), rates, float(errs.sum()), grid.origin_coordinate.value


def _run_1d(case, R, src):
    from rpylib.process.coupling.couplingmarkovchain import CouplingMarkovChain
    from rpylib.montecarlo.path import MLMCPath

    mspec, method, mode = case["model"], case["method"], case["mode"]
    label = W.model_label(mspec)
    model = W.build_model(mspec)
    g = dict(case["grid"])
    try:
        grid = G.build_grid(g, model)
    except (G.OutsideDomain, ValueError) as exc:
        R.skip("outside-domain: " + type(exc).__name__)
        return
    ctor = g["ctor"]
    if len(grid.axes[0]) > 80:
        R.skip("level-0 grid too large")
        return
    wit = {"model": mspec, "grid": g, "method": method, "mode": mode}
    product = _product(mode)
    eps = 0.37 if mode == "maxstep" else None
    try:
        cp = CouplingMarkovChain(model=model, method=C.sampling_method(method), grid=grid)
        cp.initialisation(product, max_step_epsilon=eps)
        cp.pre_computation(4, product)
    except Exception as exc:  # noqa: BLE001
        R.violation(f"1d-{method}-coupling-constructor-raises", f"{label}/{ctor}: CouplingMarkovChain set-up raises {type(exc).__name__}: {exc}", wit)
        return
    pms = [MLMCPath(deterministic_path=cp.fine_process.deterministic_path, activate_spot_underlying=False)]
    R.klass(f"1d:{ctor}:{method}:{mode}")
    for level in range(1, case["levels"] + 1):
        axis_c, rates_c, err_c, o_c = _oracle_1d(mspec, model, grid)
        pd_prev = float(np.asarray(cp.fine_process.process_drift()).reshape(-1)[0])
        eq_prev = float(cp.fine_process.equivalent_diffusion_coefficient)
        x0_prev = cp.fine_process.deterministic_path(np.zeros(1))
        try:
            cp.next_level(mc_paths=4, path_managers=pms, product=product, max_step_epsilon=eps)
        except Exception as exc:  # noqa: BLE001
            R.violation(f"1d-{method}-next-level-raises", f"{label}/{ctor}: next_level() to level {level} raises {type(exc).__name__}: {exc}", wit)
            return
        axis_f, rates_f, err_f, o_f = _oracle_1d(mspec, model, grid)
        lam_f, lam_c = float(rates_f.sum()), float(rates_c.sum())
        if lam_c < W.resolution_floor(mspec):
            R.skip("chain intensity below 1e-9 (or a millionth of the model's intensity): cell masses under the resolution of the closed forms")
            return
        sim = cp._path_coupling_simulation
        # ---- (a) kernel of every fine increment --------------------------------------------------------------
        coarse_index = {float(v): i for i, v in enumerate(axis_c)}
        received = np.zeros(axis_c.size)
        to_none = 0.0
        kernel = {}
        n_odd_pos = 0
        bad_local = None
        for k in range(axis_f.size):
            inc = k - o_f
            if inc == 0:
                continue
            if rates_f[k] <= 1e-13 * lam_f:
                R.hit("zero_rate_fine_states_skipped")
                continue

            def f(u, inc=inc):
                src.force = u
                try:
                    return float(sim.coupling_state(inc))
                finally:
                    src.force = None

            M = PW.measure(f, [i / 16 for i in range(16)] + [1e-12, 1 - 1e-12], check_determinism=False)
            R.hit("kernels_measured")
            kernel[inc] = M
            if inc % 2 and rates_f[k] > 1e-12 * lam_f:
                n_odd_pos += 1
            for val, ln in M.lengths().items():
                if val == 0.0:
                    to_none += rates_f[k] * ln
                    tgt = o_c
                elif val in coarse_index:
                    tgt = coarse_index[val]
                    received[tgt] += rates_f[k] * ln
                else:
                    R.violation("1d-coupling-image-not-a-coarse-state", f"{label}/{ctor} level {level}: increment {inc} is sent to "
                                f"{val!r}, which is not a state of the level-{level - 1} grid", wit)
                    continue
                # locality: even -> itself; odd -> one of the two neighbours
                if inc % 2 == 0:
                    ok = (val == float(axis_f[k])) and ln == 1.0
                else:
                    ok = val in (float(axis_f[k - 1]), float(axis_f[min(k + 1, axis_f.size - 1)]))
                if not ok and bad_local is None:
                    bad_local = (inc, val, ln)
        R.hit("locality_checks")
        if bad_local:
            inc, val, ln = bad_local
            R.violation(f"1d-coupling-locality-{'even' if inc % 2 == 0 else 'odd'}", f"{label}/{ctor} level {level}: fine increment {inc} "
                        f"(state {axis_f[inc + o_f]!r}) is sent to {val!r} with probability {ln!r}", wit)
        # ---- conservation ------------------------------------------------------------------------------------
        tol = 1e-8 * lam_f + 10 * (err_c + err_f)
        R.hit("conservation_checks")
        bad = [i for i in range(axis_c.size) if i != o_c and abs(received[i] - rates_c[i]) > tol]
        if bad:
            i = bad[0]
            where = "boundary" if i in (0, axis_c.size - 1) else ("next-to-origin" if abs(i - o_c) == 1 else "interior")
            R.violation(f"1d-{ctor}-coupling-conservation-{where}", f"{label}/{ctor} level {level} method {method}: coarse state "
                        f"{axis_c[i]!r} receives rate {received[i]!r} from the coupling but the level-{level - 1} chain gives it "
                        f"{rates_c[i]!r} ({len(bad)} state(s) off)", wit)
        if not (abs(to_none - (lam_f - lam_c)) <= tol):
            R.violation(f"1d-{ctor}-coupling-conservation-no-jump", f"{label}/{ctor} level {level}: rate sent to 'no coarse jump' = {to_none!r}, "
                        f"expected intensity_f - intensity_c = {lam_f - lam_c!r}", wit)
        # ---- (b) coarse drift / diffusion -------------------------------------------------------------------------
        R.hit("coarse_drift_checks")
        det = pms[-1].deterministic_path(np.array([0.0, 1.0, 2.5]))
        det = np.asarray(det, dtype=float)
        coarse = det[1].reshape(-1)
        fine = det[0].reshape(-1)
        slope_c = (coarse[2] - coarse[0]) / 2.5
        pd_now = float(np.asarray(cp.fine_process.process_drift()).reshape(-1)[0])
        slope_f = (fine[2] - fine[0]) / 2.5
        x0 = float(np.asarray(x0_prev).reshape(-1)[0])
        if not (abs(slope_c - pd_prev) <= 1e-10 * (1 + abs(pd_prev)) and abs(coarse[0] - x0) <= 1e-12 * (1 + abs(x0))):
            R.violation("1d-coarse-drift-not-previous-level", f"{label}/{ctor} level {level}: coarse deterministic path has slope "
                        f"{slope_c!r}, level-{level - 1} drift was {pd_prev!r} (fine drift now {pd_now!r})", wit)
        if not (abs(slope_f - pd_now) <= 1e-10 * (1 + abs(pd_now))):
            R.violation("1d-fine-drift-not-current-level", f"{label}/{ctor} level {level}: fine deterministic slope {slope_f!r} vs {pd_now!r}", wit)
        R.hit("coarse_diffusion_checks")
        if float(cp.equivalent_diffusion_coefficient_coarse) != eq_prev or \
                float(cp.equivalent_diffusion_coefficient_fine) != float(cp.fine_process.equivalent_diffusion_coefficient):
            R.violation("1d-coarse-diffusion-not-previous-level", f"{label}/{ctor} level {level}: coarse/fine diffusion coefficients "
                        f"{cp.equivalent_diffusion_coefficient_coarse!r}/{cp.equivalent_diffusion_coefficient_fine!r}, recorded "
                        f"level-{level - 1} value {eq_prev!r}, current chain {cp.fine_process.equivalent_diffusion_coefficient!r}", wit)
        # ---- (c) coupled simulation replayed through the kernel -------------------------------------------------------------
        if method != "TABLE":
            _replay_1d(R, cp, kernel, axis_f, o_f, src, label, ctor, level, method, mode, wit)
        if n_odd_pos >= 2:
            R.nontrivial_case(label, mspec["params"], {k: v for k, v in g.items() if not k.startswith("_")}, method, level, mode)
        if len(grid.axes[0]) > 700:
            break
    R.sample({"model": label, "grid": g, "method": method, "mode": mode, "levels": case["levels"], "final_states": int(len(grid.axes[0]))})


def _replay_1d(R, cp, kernel, axis_f, o_f, src, label, ctor, level, method, mode, wit):
    for rep in range(3):
        src.log.clear()
        try:
            path = cp.simulate_one_path_with_coupling()
        except Exception as exc:  # noqa: BLE001
            kind = "array-states" if method in ("ALIAS", "BINARYSEARCHTREE", "HUFFMANNTREE") else "list-states"
            R.violation(f"1d-coupled-simulation-raises-{mode}-{kind}", f"{label}/{ctor} level {level} method {method} ({mode}): "
                        f"simulate_one_path_with_coupling raises {type(exc).__name__}: {exc}", wit)
            return
        R.hit("coupled_paths_replayed")
        times = np.asarray(path.jump_times, dtype=float)
        jf, jc = np.asarray(path.jump_path[0], dtype=float), np.asarray(path.jump_path[1], dtype=float)
        df_, dc_ = np.asarray(path.diffusion_path[0], dtype=float), np.asarray(path.diffusion_path[1], dtype=float)
        if not (times.shape[0] == jf.shape[0] == jc.shape[0] == df_.shape[0] == dc_.shape[0]):
            R.violation("1d-coupled-path-misaligned", f"{label} level {level} ({mode}): fine/coarse components have different lengths", wit)
            return
        # same Brownian increments: increments proportional with the ratio of the two coefficients
        ef, ec = float(cp.equivalent_diffusion_coefficient_fine), float(cp.equivalent_diffusion_coefficient_coarse)
        inc_f, inc_c = np.diff(df_), np.diff(dc_)
        if not (np.max(np.abs(inc_f * ec - inc_c * ef), initial=0.0) <= 1e-12 * (1 + np.max(np.abs(inc_f), initial=0.0)) * (1 + ec)):
            R.violation("1d-coupled-brownian-increments-differ", f"{label} level {level} ({mode}): fine and coarse diffusion increments are "
                        "not driven by the same Brownian increments", wit)
        if mode == "fixed":
            continue  # only terminal sums are returned: the replay needs the whole path
        # replay: fine increments from the fine jump path, coupling uniforms = the size-1 draws in order
        if mode == "maxstep":
            # times inserted to cap the step repeat the preceding values of BOTH components; at a jump time the coarse jump is the fine
            # jump itself or a state adjacent to it (the exact image is replayed in the jump-time mode)
            dfs, dcs = np.diff(jf), np.diff(jc)
            R.hit("max_step_coupled_steps_checked", dfs.size)
            for i_step in range(dfs.size):
                if dfs[i_step] == 0.0:
                    bad_step = dcs[i_step] != 0.0
                else:
                    j0 = int(np.argmin(np.abs(axis_f - dfs[i_step])))
                    if abs(axis_f[j0] - dfs[i_step]) > 1e-9 * (1 + abs(dfs[i_step])):
                        continue
                    bad_step = float(np.min(np.abs(axis_f[max(j0 - 1, 0):j0 + 2] - dcs[i_step]))) > 1e-9 * (1 + abs(dcs[i_step]))
                if bad_step:
                    R.violation("1d-coupled-maxstep-coarse-step-not-the-image-of-the-fine-step", f"{label}/{ctor} level {level} method {method}: at time index "
                                f"{i_step + 1} the fine component moves by {float(dfs[i_step])!r} and the coarse one by {float(dcs[i_step])!r}", wit)
                    break
            continue
        vals = jf[1:-1]
        incs_val = np.diff(np.concatenate(([0.0], vals)))
        index = {float(v): i for i, v in enumerate(axis_f)}
        u_coupling = [float(v[0]) for s, v in src.log if s == 1]
        # sampler draws have size = slice size; a slice of exactly one jump also has size 1: disambiguate by replaying in order
        draws = list(src.log)
        pos = 0
        running = 0.0
        coarse_expected = []
        k_draw = 0
        # reconstruct: for each slice (sampler draw of size n), then per odd increment one size-1 draw
        j = 0
        ok = True
        while j < len(incs_val) and k_draw < len(draws):
            n = draws[k_draw][0]
            k_draw += 1
            for _ in range(n):
                if j >= len(incs_val):
                    ok = False
                    break
                v = float(incs_val[j])
                # nearest state (values are sums of states: rounding of the cumulated path)
                st = min(index, key=lambda s: abs(s - v))
                inc = index[st] - o_f
                if not (abs(st - v) <= 1e-9 * (1 + abs(v))):
                    ok = False
                    break
                if inc % 2 == 0:
                    img = st
                else:
                    if k_draw >= len(draws) or draws[k_draw][0] != 1:
                        ok = False
                        break
                    u = float(draws[k_draw][1][0])
                    k_draw += 1
                    img = kernel[inc].state_at(u)
                running += img
                coarse_expected.append(running)
                j += 1
            if not ok:
                break
        if not ok or j != len(incs_val):
            R.skip("replay-could-not-align-logged-variates")
            continue
        got = jc[1:-1]
        if len(got) != len(coarse_expected) or not (np.max(np.abs(got - np.array(coarse_expected)), initial=0.0) <= 1e-9 * (1 + np.max(np.abs(got), initial=0.0))):
            R.violation("1d-coupled-coarse-path-not-image-of-fine-path", f"{label}/{ctor} level {level} method {method}: the coarse jump path "
                        f"{got[:6].tolist()} is not the running sum of the images of the fine increments {np.array(coarse_expected[:6]).tolist()}", wit)
        R.hit("coarse_paths_matched")


# -------------------------------------------------------------------------------------------------------------------
def _nd_oracle(cm, model, grid):
    d = grid.dimension
    sizes = [len(a) for a in grid.axes]
    origin = list(grid.origin_coordinate)
    oracle = C.CopulaMassOracle(cm, model.copula, model.models, [(-math.inf, math.inf)] * d)
    bounds = []
    for k in range(d):
        ax = np.asarray(grid.axes[k], dtype=float)
        mids = [0.5 * (float(ax[i]) + float(ax[i + 1])) for i in range(ax.size - 1)]
        bounds.append((np.array([ax[0]] + mids), np.array(mids + [ax[-1]])))
    rates = {}
    for s in itertools.product(*[range(n) for n in sizes]):
        if list(s) == origin:
            continue
        val = tuple(float(grid.axes[k][s[k]]) for k in range(d))
        rates[val] = (oracle.mass([float(bounds[k][0][s[k]]) for k in range(d)], [float(bounds[k][1][s[k]]) for k in range(d)]),
                      tuple(si - oi for si, oi in zip(s, origin)))
    return rates, oracle.max_err


def _run_nd(case, R, src):
    from rpylib.process.coupling.couplinglevycopula import CouplingProcessLevyCopula
    from rpylib.montecarlo.path import MLMCPath

    cm, method, mode = case["model"], case["method"], case["mode"]
    label = W.copula_label(cm)
    model = W.build_copula_model(cm)
    if not model.jump_of_finite_variation():
        R.hit("infinite_variation_copula_chains")
    g = dict(case["grid"])
    try:
        grid = G.build_grid(g, model)
    except (G.OutsideDomain, ValueError) as exc:
        R.skip("outside-domain: " + type(exc).__name__)
        return
    d = grid.dimension
    ctor = g["ctor"]
    if math.prod(len(a) for a in grid.axes) > (60 if d == 2 else 130):
        R.skip("nd level-0 grid too large")
        return
    wit = {"model": cm, "grid": g, "method": method, "mode": mode}
    product = _product(mode)
    try:
        cp = CouplingProcessLevyCopula(levy_copula_model=model, grid=grid, method=C.sampling_method(method))
        cp.initialisation(product)
        cp.pre_computation(4, product)
    except Exception as exc:  # noqa: BLE001
        R.violation(f"nd-{method}-coupling-constructor-raises", f"{label}/{ctor}: CouplingProcessLevyCopula set-up raises "
                    f"{type(exc).__name__}: {exc}", wit)
        return
    pms = [MLMCPath(deterministic_path=cp.fine_process.deterministic_path, activate_spot_underlying=False)]
    R.klass(f"{d}d:{ctor}:{method}:{mode}")
    for level in range(1, case["levels"] + 1):
        rates_c, err_c = _nd_oracle(cm, model, grid)
        pd_prev = np.asarray(cp.fine_process.process_drift(), dtype=float).reshape(-1).copy()
        dm_prev = np.array(cp.fine_process._path_simulation.diffusion_matrix, dtype=float, copy=True)
        try:
            cp.next_level(mc_paths=4, path_managers=pms, product=product)
        except Exception as exc:  # noqa: BLE001
            R.violation(f"nd-{method}-next-level-raises", f"{label}/{ctor}: next_level() raises {type(exc).__name__}: {exc}", wit)
            return
        rates_f, err_f = _nd_oracle(cm, model, grid)
        lam_f = sum(v[0] for v in rates_f.values())
        lam_c = sum(v[0] for v in rates_c.values())
        sim = cp._path_coupling_simulation
        coupling_state = getattr(sim, "_CouplingLevyCopulaSimulation__coupling_state")
        received = {val: 0.0 for val in rates_c}
        to_none = 0.0
        n_odd = 0
        worst_parity = {}
        axes_f = [np.asarray(a, dtype=float) for a in grid.axes]
        origin_f = list(grid.origin_coordinate)
        zero = tuple([0.0] * d)
        for val_f, (rate, inc) in rates_f.items():
            if rate <= 1e-13 * lam_f:
                R.hit("zero_rate_fine_states_skipped")   # never sampled (C02): the coupling is never asked about them
                continue
            parity = tuple(i % 2 for i in inc)
            pkey = "all-even" if not any(parity) else ("all-odd" if all(parity) else "mixed")

            def f(u, inc=inc):
                src.force = u
                try:
                    return tuple(float(v) for v in np.asarray(coupling_state(tuple(inc))).reshape(-1))
                except Exception as exc:  # noqa: BLE001
                    return ("raises", type(exc).__name__)
                finally:
                    src.force = None

            M = PW.measure(f, [i / 32 for i in range(32)] + [1e-12, 1 - 1e-12], check_determinism=False)
            R.hit("nd_kernels_measured")
            R.hit("kernels_measured")
            if any(parity) and rate > 1e-12 * lam_f:
                n_odd += 1
            low = {}
            for a_, b_, s_ in M.pieces:
                if min(b_, 1 - 1e-12) - a_ > 0:
                    low[s_] = True
            for img, ln in M.lengths().items():
                if img and img[0] == "raises":
                    if img not in low:
                        R.hit("top_sliver_raises")      # u within 1e-12 of 1: rounding of the cumulated probabilities
                        continue
                    R.violation(f"nd-coupling-state-raises-{pkey}", f"{label}/{ctor} level {level}: coupling of increment {inc} raises {img[1]} "
                                f"for a set of uniforms of measure {ln!r}", wit)
                    continue
                if img == zero:
                    to_none += rate * ln
                elif img in received:
                    received[img] += rate * ln
                else:
                    R.violation("nd-coupling-image-not-a-coarse-state", f"{label}/{ctor} level {level}: increment {inc} sent to {img}", wit)
                    continue
                # locality: even coordinates unchanged, odd coordinates moved to an adjacent coarse state
                for k in range(d):
                    idx = inc[k] + origin_f[k]
                    if parity[k] == 0:
                        okk = img[k] == val_f[k]
                    else:
                        okk = img[k] in (float(axes_f[k][idx - 1]), float(axes_f[k][min(idx + 1, axes_f[k].size - 1)]))
                    if not okk:
                        R.violation(f"nd-coupling-locality-{pkey}", f"{label}/{ctor} level {level}: increment {inc} (state {val_f}) sent to "
                                    f"{img}: coordinate {k} is not {'kept' if parity[k] == 0 else 'moved to a neighbour'}", wit)
                        break
        R.hit("conservation_checks")
        tol = 1e-6 * lam_f + 100 * (err_c + err_f)
        bad = [(val, received[val], rates_c[val][0]) for val in rates_c if abs(received[val] - rates_c[val][0]) > tol]
        if bad:
            val, got, want = max(bad, key=lambda t: abs(t[1] - t[2]))
            R.violation(f"nd-coupling-conservation", f"{label}/{ctor} level {level} method {method}: coarse state {val} receives rate "
                        f"{got!r} from the coupling, the level-{level - 1} chain gives it {want!r} ({len(bad)} of {len(rates_c)} states off; "
                        f"relative to intensity: {abs(got - want) / lam_c:.2e})", wit)
        if not (abs(to_none - (lam_f - lam_c)) <= tol):
            R.violation("nd-coupling-conservation-no-jump", f"{label}/{ctor} level {level}: rate sent to 'no coarse jump' {to_none!r} vs "
                        f"{lam_f - lam_c!r}", wit)
        # coarse drift / diffusion
        R.hit("coarse_drift_checks")
        det = np.asarray(pms[-1].deterministic_path(np.array([0.0, 2.0])), dtype=float)
        slope_c = ((det[1][..., 1] - det[1][..., 0]) / 2.0).reshape(-1)
        if not (np.max(np.abs(slope_c - pd_prev)) <= 1e-10 * (1 + np.max(np.abs(pd_prev)))):
            R.violation("nd-coarse-drift-not-previous-level", f"{label}/{ctor} level {level}: coarse slope {slope_c.tolist()} vs recorded "
                        f"{pd_prev.tolist()}", wit)
        R.hit("coarse_diffusion_checks")
        if not np.array_equal(np.asarray(cp._diffusion_matrix_2h, dtype=float), dm_prev) or \
                not np.array_equal(np.asarray(cp._diffusion_matrix_h, dtype=float), np.asarray(cp.fine_process._path_simulation.diffusion_matrix, dtype=float)):
            R.violation("nd-coarse-diffusion-not-previous-level", f"{label}/{ctor} level {level}: coarse diffusion matrix differs from the "
                        "level below", wit)
        # a coupled simulation must at least run and keep fine/coarse aligned
        try:
            for _rep in range(3):
                path = cp.simulate_one_path_with_coupling()
                R.hit("coupled_paths_replayed")
                jp = np.asarray(path.jump_path)
                if jp.shape[0] != 2 or jp.shape[-1] != np.asarray(path.jump_times).shape[0]:
                    R.violation("nd-coupled-path-misaligned", f"{label} level {level}: jump path shape {jp.shape} vs {len(path.jump_times)} times", wit)
                elif mode != "fixed":
                    # along the simulated path (one fine jump per step): the coarse jump is the fine jump itself or moves each coordinate to a
                    # state of the fine axis adjacent to it -- never a later jump, never nothing when the fine jump sits on the coarse grid
                    dfine = np.diff(jp[0].reshape(d, -1), axis=1)
                    dcoarse = np.diff(jp[1].reshape(d, -1), axis=1)
                    R.hit("coupled_path_steps_checked", dfine.shape[1])
                    for i_step in range(dfine.shape[1]):
                        bad_k = None
                        for k in range(d):
                            ax = np.asarray(axes_f[k], dtype=float)
                            j0 = int(np.argmin(np.abs(ax - dfine[k, i_step])))
                            if abs(ax[j0] - dfine[k, i_step]) > 1e-9 * (1 + abs(ax[j0])):
                                continue      # (not a single grid jump: step added by the time grid)
                            allowed = ax[max(j0 - 1, 0):j0 + 2]
                            if np.min(np.abs(allowed - dcoarse[k, i_step])) > 1e-9 * (1 + abs(dcoarse[k, i_step])):
                                bad_k = k
                                break
                        if bad_k is not None:
                            R.violation(f"nd-coupled-path-coarse-jump-not-adjacent-to-the-fine-jump-{mode}", f"{label}/{ctor} level {level} ({mode}): at step {i_step} the "
                                        f"fine component jumps by {dfine[:, i_step].tolist()} and the coarse one by {dcoarse[:, i_step].tolist()}", wit)
                            break
        except Exception as exc:  # noqa: BLE001
            R.violation(f"nd-coupled-simulation-raises-{mode}", f"{label}/{ctor} level {level} method {method} ({mode}): "
                        f"simulate_one_path_with_coupling raises {type(exc).__name__}: {exc}", wit)
        if n_odd >= 2:
            R.nontrivial_case(label, cm, {k: v for k, v in g.items() if not k.startswith("_")}, method, level, mode)
    R.sample({"copula_model": label, "grid": g, "method": method, "mode": mode})
