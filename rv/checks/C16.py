"""C16 -- the SDE scheme is the Euler scheme of its driver; rate models discount sanely.

Monitor: record-only capture of the driver path consumed by MarkovChainSDE.simulate_one_path() and by
CouplingSDE.simulate_one_path_with_coupling() (real drivers); oracle: an independent numpy Euler recursion on the
captured path, closed forms for constant and diagonal coefficients.  df(t) of every model on a fine mesh.
"""
from __future__ import annotations

import math

import numpy as np

from .. import chain as C, gridspec as G, workloads as W

ID = "C16"
RULE = ("case = (driver: 1-d Levy model or 2-d Levy copula, coefficient in {Constant, DiagX, Libor, ForwardMarket}, x0, grid step, "
        "seed): 3 single paths + 3 coupled paths at levels 1..2, each compared with the Euler recursion on the captured driver "
        "path; or (rate model | Levy model | exponential model, tenor structure, rates): df on a 2000-point mesh + points around "
        "every tenor; non-trivial = driver path with >= 2 steps; distinct = distinct seed")
ASSUMPTIONS = ["coefficient functions and the SDE drift are evaluated through the model's own callables; the recursion itself is the harness's",
               "copula drivers in dimension 2 (finite and infinite variation); the Libor model with independent components is refused by the library (NotImplementedError: no copula density)",
               "df is explored on [0, last tenor]"]
REQUIRED_COUNTERS = ["single_paths", "coupled_paths", "constant_closed_form", "diagonal_closed_form", "df_meshes", "epsilon_checks",
                     "copula_driver_cases", "libor_copula_driver_cases", "libor_coupled_paths", "integer_tenors", "rates_fixing_before_maturity", "initial_value_given_as_int_or_list"]
MIN_NONTRIVIAL = {"quick": 40, "thorough": 500}
THOROUGH_ROUNDS = 3      # the thorough tier runs the generators this many times (different seeds)
SHARD_TIMEOUT = {"quick": 900, "thorough": 7200}


def gen_cases(tier, seed):
    rng = np.random.default_rng(seed + 1600)
    n = 48 if tier == "quick" else 700
    cases = []
    for i in range(n):
        cases.append({"kind": "sde", "seed": int(rng.integers(2**31)), "driver_dim": 1 if i % 3 else 2,
                      "coef": ["constant", "diagx", "libor", "forward"][i % 4], "levels": 1 + (i % 2)})
    for i in range(24 if tier == "quick" else 400):
        cases.append({"kind": "df", "seed": int(rng.integers(2**31)), "model": ["forward", "libor", "levy", "exp"][i % 4]})
    return cases


def run_case(case, R):
    R.evaluation()
    if case["kind"] == "df":
        _df(case, R)
    else:
        _sde(case, R)


# -------------------------------------------------------------------------------------------------------------------
def _df(case, R):
    rng = np.random.default_rng(case["seed"])
    kind = case["model"]
    wit = {"case": case}
    if kind in ("forward", "libor"):
        from rpylib.model.levydrivensde.levyforwardmodel import LevyForwardModel
        from rpylib.model.levydrivensde.levylibormodel import LevyLiborModel

        m = int(rng.integers(1, 7))
        t0 = float(rng.uniform(0.25, 6.0))
        tenors = [t0]
        for _ in range(m):
            tenors.append(tenors[-1] + float(rng.choice([0.25, 0.5, 1.0, rng.uniform(0.1, 2.0)])))
        if case["seed"] % 3 == 0:
            # tenors in whole years, written as integers (a list of ints, or an integer array)
            tenors = [int(v) for v in np.cumsum(rng.integers(1, 4, size=m + 1))]
            if rng.random() < 0.5:
                tenors = np.array(tenors)
            R.hit("integer_tenors")
        rates = rng.uniform(0.0, 0.12, size=m)
        if rng.random() < 0.2:
            rates[int(rng.integers(m))] = 0.0
        sigma = rng.uniform(0.2, 1.5, size=(m, 1))
        driver = W.build_model(W.gen_model_spec(rng, "HEM", exp=False))
        cls = LevyForwardModel if kind == "forward" else LevyLiborModel
        kw = {"ois_rates": rates} if kind == "forward" else {"libor_rates": rates}
        model = cls(tenors=tenors, sigma=sigma, driver=driver, **kw)
        tenors = [float(v) for v in tenors]
        tmax = tenors[-1]
        special = []
        for t in tenors:
            special += [t - 1e-9, t, t + 1e-9, t - 1e-6, t + 1e-6]
        lip = float(np.max(rates)) + 1e-12
        wit.update({"tenors": tenors, "rates": rates.tolist()})
    else:
        spec = W.gen_model_spec(rng, exp=(kind == "exp"))
        model = W.build_model(spec)
        tmax = 10.0
        special = []
        lip = spec.get("r", 0.0) + 1e-12
        wit["spec"] = spec
    ts = np.unique(np.clip(np.concatenate([np.linspace(0, tmax, 2000), special]), 0.0, tmax))
    R.hit("df_meshes")
    try:
        vals = np.array([float(model.df(float(t))) for t in ts])
    except Exception as exc:  # noqa: BLE001
        R.violation(f"df-raises-{kind}", f"df raises {type(exc).__name__}: {exc}", wit)
        return
    if not (abs(vals[0] - 1.0) <= 1e-15):
        R.violation(f"df-at-0-{kind}", f"df(0) = {vals[0]!r}", wit)
    if np.any(vals <= 0) or np.any(~np.isfinite(vals)):
        R.violation(f"df-not-positive-{kind}", f"min df = {float(np.min(vals))!r}", wit)
    inc = np.diff(vals)
    if np.any(inc > 1e-15):
        i = int(np.argmax(inc))
        where = "across-a-tenor" if special and min(abs(ts[i + 1] - t) for t in wit.get("tenors", [math.inf])) < 2e-6 else "inside-a-period"
        R.violation(f"df-increases-{kind}-{where}", f"df({ts[i]!r}) = {vals[i]!r} < df({ts[i + 1]!r}) = {vals[i + 1]!r}", wit)
    # continuity: |df(t+delta) - df(t)| <= rate_max * delta (df <= 1)
    jumps = np.abs(inc) - 1.5 * lip * np.diff(ts) - 1e-14
    if np.any(jumps > 0):
        i = int(np.argmax(jumps))
        R.violation(f"df-discontinuous-{kind}", f"df jumps from {vals[i]!r} at t = {ts[i]!r} to {vals[i + 1]!r} at t = {ts[i + 1]!r} "
                    f"(rates <= {lip:.4f})", wit)
    R.nontrivial_case("df", case["seed"])
    if case["seed"] % 8 == 0:
        R.sample({"kind": "df", "model": kind, "df(tmax)": float(vals[-1]), "tenors": wit.get("tenors")})


# -------------------------------------------------------------------------------------------------------------------
def _product(T):
    from rpylib.product.product import Product
    from rpylib.product.underlying import Spot
    from rpylib.product.payoff import Forward

    return Product(payoff_underlying=Spot(), payoff=Forward(strike=0.0), maturity=T)


def _euler(model, sde_drift, mc_drift, times, jump, diff, x0):
    """independent recursion on the driver path (jump, diff: arrays (d, n) or (n,))"""
    jump = np.atleast_2d(jump)
    diff = np.atleast_2d(diff)
    x = np.array(x0, dtype=float).reshape(-1, 1)
    mu = np.asarray(mc_drift, dtype=float).reshape(-1, 1)
    out = [x.copy().ravel()]
    for i in range(times.size - 1):
        t, dt = float(times[i]), float(times[i + 1] - times[i])
        dY = (jump[:, i + 1] - jump[:, i] + diff[:, i + 1] - diff[:, i]).reshape(-1, 1)
        a = np.asarray(model.a(t, x.copy()), dtype=float)
        a = a.reshape(x.shape[0], -1) if a.ndim != 2 else a
        dr = np.asarray(sde_drift(t, x.copy()), dtype=float).reshape(-1, 1) if sde_drift is not None else 0.0
        x = x + (dr + a @ mu) * dt + a @ dY
        out.append(x.copy().ravel())
    return np.array(out).T        # (m, n)


def _as_given(rng, x0, R):
    """the initial value the way a user may write it: a float / float array, an integer (array), or a plain list"""
    u = rng.random()
    if u < 0.6:
        return x0
    R.hit("initial_value_given_as_int_or_list")
    if u < 0.8:
        return int(rng.integers(1, 4)) if np.ndim(x0) == 0 else np.asarray(rng.integers(1, 4, size=np.size(x0)))
    return float(x0) if np.ndim(x0) == 0 else [float(v) for v in np.ravel(x0)]


def _sde(case, R):
    import logging
    import warnings

    warnings.simplefilter("ignore")
    logging.disable(logging.CRITICAL)
    from rpylib.model.levydrivensde.levydrivensde import LevyDrivenSDEModel, Constant, DiagX
    from rpylib.model.levydrivensde.levyforwardmodel import LevyForwardModel
    from rpylib.model.levydrivensde.levylibormodel import LevyLiborModel
    from rpylib.process.markovchain.markovchainsde import MarkovChainSDE
    from rpylib.process.coupling.couplingsde import CouplingSDE

    rng = np.random.default_rng(case["seed"])
    np.random.seed(case["seed"] % (2**31))
    d, coef = case["driver_dim"], case["coef"]
    wit = {"case": case}
    # ---- driver ---------------------------------------------------------------------------------------------------------
    if d == 1:
        dspec = W.gen_model_spec(rng, str(rng.choice(["HEM", "MERTON", "VG", "CGMY"])), exp=False)
        driver = W.build_model(dspec)
    else:
        dspec = W.gen_copula_model_spec(rng, dim=2, kind=str(rng.choice(["clayton", "independent"])))
        W.limit_variation(rng, dspec, allow_infinite=bool(rng.random() < 0.3), y_hi=0.7)
        for ms in dspec["margins"]:
            if ms["family"] == "MERTON":
                ms["params"]["sigma_j"] = max(ms["params"]["sigma_j"], 0.08)
        driver = W.build_copula_model(dspec)
        R.hit("copula_driver_cases")
    wit["driver"] = dspec
    T = float(rng.uniform(0.3, 1.5))
    # ---- model -------------------------------------------------------------------------------------------------------------------
    try:
        if coef == "constant":
            m = int(rng.integers(1, 4))
            x0 = rng.uniform(0.5, 2.0, size=m) if m > 1 else float(rng.uniform(0.5, 2.0))
            a = Constant(m=m, d=d, constant=float(rng.uniform(-1.5, 1.5)))
            if m > 1 or d > 1:
                a.constant_matrix = rng.uniform(-1, 1, size=(m, d))
            x0 = _as_given(rng, x0, R)
            model = LevyDrivenSDEModel(driver=driver, x0=x0, a=a)
        elif coef == "diagx":
            x0 = rng.uniform(0.5, 2.0, size=d) if d > 1 else float(rng.uniform(0.5, 2.0))
            x0 = _as_given(rng, x0, R)
            model = LevyDrivenSDEModel(driver=driver, x0=x0, a=DiagX(dimension=d))
        else:
            m = int(rng.integers(2, 5))
            t0 = float(rng.uniform(T + 0.1, T + 2.0))
            if rng.random() < 0.45:
                t0 = float(T * rng.uniform(0.15, 0.8))      # some rates fix before the maturity: the coefficient a(t, x) depends on t
                R.hit("rates_fixing_before_maturity")
            tenors = [t0 + 0.5 * k for k in range(m + 1)]
            if rng.random() < 0.5:
                tenors = np.array(tenors)                      # (the constructors take lists or arrays)
            rates = rng.uniform(0.01, 0.06, size=m)
            sigma = rng.uniform(0.2, 1.0, size=(m, d))
            if coef == "forward":
                model = LevyForwardModel(ois_rates=rates, tenors=tenors, sigma=sigma, driver=driver)
            else:
                model = LevyLiborModel(libor_rates=rates, tenors=tenors, sigma=sigma, driver=driver)
                if d > 1:
                    R.hit("libor_copula_driver_cases")
    except Exception as exc:  # noqa: BLE001
        R.violation(f"sde-model-constructor-raises-{coef}", f"{type(exc).__name__}: {exc}", wit)
        return
    g = {"ctor": "fixed", "dim": d, "h": float(rng.uniform(0.03, 0.12)), "n": int(rng.choice([5, 7, 9]))}
    grid = G.build_grid(g, driver)
    meth = C.sampling_method("BINARYSEARCHTREEADAPTED1D" if d == 1 else "BINARYSEARCHTREEADAPTED")
    product = _product(T)
    tag = f"{coef}-driver{d}d"
    x0v = np.atleast_1d(np.asarray(model.x0, dtype=float))
    # ---- single process ----------------------------------------------------------------------------------------------------------------
    try:
        from rpylib.process.markovchain.markovchainsde import MarkovChainLevyLiborModel

        cls = MarkovChainLevyLiborModel if isinstance(model, LevyLiborModel) else MarkovChainSDE
        proc = cls(model=model, method=meth, grid=grid)
        proc.initialisation(product)
        proc.pre_computation(4, product)
    except NotImplementedError as exc:
        R.skip(f"not-implemented-by-the-library ({tag}): {exc}")      # an explicit refusal (e.g. no copula density for independent components)
        return
    except Exception as exc:  # noqa: BLE001
        R.violation(f"sde-process-setup-raises-{tag}", f"{type(exc).__name__}: {exc}", wit)
        return
    bg = float(driver.blumenthal_getoor_index())
    R.hit("epsilon_checks")
    if not (abs(proc.epsilon - grid.h**bg) <= 1e-15):
        R.violation("sde-epsilon", f"epsilon = {proc.epsilon!r}, h^BG = {grid.h ** bg!r}", wit)
    captured = []
    orig = proc.markov_chain.simulate_one_path

    def cap():
        p = orig()
        captured.append(p)
        return p

    proc.markov_chain.simulate_one_path = cap
    mc_drift = np.asarray(proc.markov_chain.process_drift(), dtype=float)
    for _ in range(3):
        try:
            path = proc.simulate_one_path()
        except Exception as exc:  # noqa: BLE001
            R.violation(f"sde-simulate-raises-{tag}", f"MarkovChainSDE.simulate_one_path ({coef} coefficient, driver dimension {d}, "
                        f"{x0v.size} underlying(s)) raises {type(exc).__name__}: {exc}", wit)
            return
        R.hit("single_paths")
        drv = captured[-1]
        times = np.asarray(drv.jump_times, dtype=float)
        if np.any(np.diff(times) > proc.epsilon * (1 + 1e-9)):
            R.violation("sde-driver-step-larger-than-epsilon", f"driver step {float(np.max(np.diff(times)))!r} > epsilon {proc.epsilon!r}", wit)
        want = _euler(model, proc.sde_drift, mc_drift, times, drv.jump_path, drv.diffusion_path, x0v)
        got = np.atleast_2d(np.asarray(path.value(), dtype=float)) + x0v.reshape(-1, 1)
        if np.asarray(path.jump_times).shape != times.shape or got.shape != want.shape:
            R.violation(f"sde-path-misaligned-{tag}", f"solution {got.shape} on {np.asarray(path.jump_times).shape} times, driver has {times.shape}", wit)
            return
        scale = 1 + np.max(np.abs(want))
        if not (np.max(np.abs(got - want)) <= 1e-10 * scale):
            i = int(np.argmax(np.max(np.abs(got - want), axis=0)))
            R.violation(f"sde-not-euler-scheme-{tag}", f"{coef} coefficient: solution {got[:, i].tolist()} at step {i}, Euler recursion on the captured "
                        f"driver path {want[:, i].tolist()}", wit)
            return
        Y = (np.atleast_2d(drv.jump_path) + np.atleast_2d(drv.diffusion_path)) + mc_drift.reshape(-1, 1) * times[None, :]
        if coef == "constant":
            R.hit("constant_closed_form")
            cf = x0v + (model.a.constant_matrix @ Y[:, -1:]).ravel()
            if not (np.max(np.abs(got[:, -1] - cf)) <= 1e-10 * scale):
                R.violation(f"sde-constant-closed-form-{tag}", f"terminal value {got[:, -1].tolist()} vs x0 + a Y_T = {cf.tolist()}", wit)
        if coef == "diagx":
            R.hit("diagonal_closed_form")
            cf = x0v * np.prod(1 + np.diff(Y, axis=1), axis=1)
            if not (np.max(np.abs(got[:, -1] - cf)) <= 1e-9 * (1 + np.max(np.abs(cf)))):
                R.violation(f"sde-diagonal-closed-form-{tag}", f"terminal value {got[:, -1].tolist()} vs x0 prod(1 + dY) = {cf.tolist()}", wit)
        if times.size >= 3:
            R.nontrivial_case("sde", case["seed"], coef, d)
    # ---- coupled process -------------------------------------------------------------------------------------------------------------------
    try:
        from rpylib.montecarlo.path import MLMCPath

        grid2 = G.build_grid(dict(g), driver)
        cp = CouplingSDE(model=model, grid=grid2, method=meth)
        cp.initialisation(product)
        cp.pre_computation(4, product)
        pms = [MLMCPath(deterministic_path=cp.fine_process.deterministic_path, activate_spot_underlying=False)]
        for level in range(1, case["levels"] + 1):
            drift_prev = np.asarray(cp.mc_drift_h, dtype=float).copy()
            cp.next_level(4, pms, product)
            if not (np.max(np.abs(np.asarray(cp.mc_drift_2h, dtype=float) - drift_prev)) <= 0):
                R.violation("sde-coupling-coarse-drift-not-previous-level", f"level {level}: coarse driver drift {np.asarray(cp.mc_drift_2h).tolist()} "
                            f"vs level {level - 1} drift {drift_prev.tolist()}", wit)
            h_now = float(cp.driver_coupling_process.grid.h)
            R.hit("epsilon_checks")
            if not (abs(cp.epsilon - h_now**bg) <= 1e-15):
                R.violation("sde-coupling-epsilon", f"level {level}: epsilon = {cp.epsilon!r}, (current h)^BG = {h_now ** bg!r}", wit)
            cap2 = []
            o2 = cp.driver_coupling_process.simulate_one_path_with_coupling

            def c2():
                p = o2()
                cap2.append(p)
                return p

            cp.driver_coupling_process.simulate_one_path_with_coupling = c2
            for _ in range(3):
                path = cp.simulate_one_path_with_coupling()
                R.hit("coupled_paths")
                if isinstance(model, LevyLiborModel):
                    R.hit("libor_coupled_paths")
                drv = cap2[-1]
                times = np.asarray(drv.jump_times, dtype=float)
                if np.any(np.diff(times) > cp.epsilon * (1 + 1e-9)):
                    R.violation("sde-coupled-driver-step-larger-than-epsilon", f"level {level}: driver step {float(np.max(np.diff(times)))!r} > "
                                f"epsilon {cp.epsilon!r}", wit)
                val = np.asarray(path.value(), dtype=float)
                for comp, mu in ((0, cp.mc_drift_h), (1, cp.mc_drift_2h)):
                    want = _euler(model, cp.fine_process.sde_drift, mu, times, np.asarray(drv.jump_path)[comp], np.asarray(drv.diffusion_path)[comp], x0v)
                    got = np.atleast_2d(val[comp]) + x0v.reshape(-1, 1)
                    if got.shape != want.shape:
                        R.violation(f"sde-coupled-path-misaligned-{tag}", f"{got.shape} vs {want.shape}", wit)
                        return
                    if not (np.max(np.abs(got - want)) <= 1e-10 * (1 + np.max(np.abs(want)))):
                        R.violation(f"sde-coupled-not-euler-scheme-{tag}-{'fine' if comp == 0 else 'coarse'}", f"level {level}: coupled solution differs "
                                    "from the Euler recursion on the captured coupled driver path", wit)
                        return
            cp.driver_coupling_process.simulate_one_path_with_coupling = o2
    except Exception as exc:  # noqa: BLE001
        R.violation(f"sde-coupling-raises-{tag}", f"CouplingSDE ({coef} coefficient, driver dimension {d}) raises {type(exc).__name__}: {exc}", wit)
        return
    if case["seed"] % 10 == 0:
        R.sample({"kind": "sde", "coef": coef, "driver_dim": d, "T": T, "x0": x0v.tolist(), "driver": W.any_label(dspec)})
