"""C04 -- drift compensation: the chain reproduces the mean (and, up to the cell oscillation, the variance)
of the truncated process it replaces, in every declared Levy-Khintchine representation.

Monitor: the real MarkovChainProcess / MarkovChainLevyCopula after initialisation(product): process_drift(),
equivalent_diffusion_coefficient, and the rates recorded from the factory (or measured from the sampler).
Oracle: quadrature of the INPUT model's density in the declared representation.
"""
from __future__ import annotations

import itertools
import math

import numpy as np

from .. import chain as C, gridspec as G, samplers as S, workloads as W
from ..oracles import quadrature as Q

ID = "C04"
RULE = ("case = (model spec, declared representation in {native, ZERO (finite variation only), CENTER, ONEONE, TILDE}, identity "
        "or exponential model, grid constructor + arguments, level 0..k, sampling method); compared: process_drift + sum_k x_k "
        "rate_k vs drift + a_rep + integral (x - h_rep(x)) nu_trunc(dx); equivalent diffusion vs sigma^2 (+ central-cell second "
        "moment iff infinite variation); variance gap vs the per-cell oscillation bound; non-trivial = chain with >= 2 states of "
        "positive rate; distinct = distinct (model, representation, grid, level, method)")
ASSUMPTIONS = [
    "the truncated process is the one obtained by keeping the drift a fixed in the DECLARED representation while restricting "
    "nu to the grid bounds (this is what the property's 'truncated Levy process' means here; equality of chain drifts across "
    "representations is deliberately NOT asserted)",
    "quadrature oracle tolerance 1e-9 (1 + |mean| + sum |x_k| rate_k) + 10 err; comparisons touching 0 need n - activity >= 0.25",
    "copula margins: a-priori slack max(|l_k|, r_k) * sum_{j != k} nu_j(outside [l_j, r_j]); finite-variation copulas only",
]
REQUIRED_COUNTERS = ["mean_comparisons", "diffusion_comparisons", "variance_bound_checks", "representations_set",
                     "nd_margin_mean_comparisons", "nd_diffusion_comparisons", "nd_central_cell_second_moments",
                     "nd_central_cell_second_moments_decisive", "nd_central_cell_cross_moments", "pure_jump_models_with_added_brownian_component", "model_object_used_by_an_earlier_chain",
                     "simulated_diffusion_coefficients", "multilevel_path_manager_drifts"]
MIN_NONTRIVIAL = {"quick": 60, "thorough": 400}
SHARD_TIMEOUT = {"quick": 900, "thorough": 7200}
REPS = ["native", "ZERO", "CENTER", "ONEONE", "TILDE"]


def gen_cases(tier, seed):
    rng = np.random.default_rng(seed + 400)
    thorough = tier == "thorough"
    cases = []
    fixed = W.fixed_model_specs()
    models = fixed + [W.gen_model_spec(rng) for _ in range(12 if not thorough else 150)]
    i = 0
    for m in models:
        ctors = G.CTORS_1D if thorough else [G.CTORS_1D[(i + k) % 6] for k in (0, 1, 3)]
        for ctor in ctors:
            i += 1
            rep = REPS[i % 5]
            lev = int(rng.integers(0, 4 if thorough else 3))
            if ctor == "probstep":
                lev = min(lev, 1)
            meth = C.METHODS_1D[i % 6]
            cases.append({"model": m, "rep": rep, "grid": G.gen_grid_spec(rng, ctor, 1), "level": lev, "method": meth})
            if m["family"] in ("CGMY", "VG") and not m.get("exp") and i % 2:
                cases[-1]["extra_sigma"] = W.r6(rng.uniform(0.05, 0.4))
            if ctor in ("fixed", "geometric_bounds"):
                cases[-1]["after_narrow_chain"] = True
    for j in range(8 if not thorough else 60):
        dim = 2 if j % 3 else 3
        cm = W.gen_copula_model_spec(rng, dim=dim, kind=["clayton", "independent", "clayton", "dependent"][j % 4], exp=bool(j % 2))
        for ms in cm["margins"]:
            if ms["family"] == "CGMY" and ms["params"]["y"] >= 1.0:
                ms["params"]["y"] = W.r6(rng.uniform(0.05, 0.7))
                ms["branch"] = "0<y<1"
            if ms["family"] == "MERTON":
                ms["params"]["mu_j"] = min(ms["params"]["mu_j"], 0.05)
                ms["params"]["sigma_j"] = max(ms["params"]["sigma_j"], 0.08)
        ctor = ["fixed", "geometric_bounds", "credit", "uniform", "geometric"][j % 5] if dim == 2 else ["fixed", "geometric_bounds", "credit"][j % 3]
        g = G.gen_grid_spec(rng, ctor, dim)
        if ctor == "fixed":
            g["n"] = int(rng.integers(5, 12 if dim == 2 else 7))
            g["h"] = W.r6(W._logu(rng, 0.02, 0.2))
        if ctor == "uniform":
            g["h_div"] = W.r6(rng.uniform(2.5, 5.0))
        if ctor in ("geometric", "geometric_bounds"):
            g["n_side"] = int(rng.integers(2, 6 if dim == 2 else 4))
        cases.append({"model": cm, "rep": REPS[j % 5], "grid": g, "level": int(j % 2) if dim == 2 else 0, "method": "INVERSION"})
    # infinite-variation copula chains (2-d, uniform grid: the central cell is (-h/2, h/2]^2): one or both margins with 1 < y < 2
    for j in range(6 if not thorough else 24):
        fams = [["CGMY", "CGMY"], ["CGMY", "VG"], ["HEM", "CGMY"], ["CGMY", "MERTON"]][j % 4]
        cm = W.gen_copula_model_spec(rng, dim=2, kind=["clayton", "clayton", "dependent", "independent"][j % 4], families=fams, exp=bool(j % 2))
        iv_done = False
        for ms in cm["margins"]:
            if ms["family"] == "CGMY" and (not iv_done or rng.random() < 0.5):
                ms["params"]["y"] = W.r6(rng.uniform(1.05, 1.7)) if j % 6 != 5 else 1.0      # y = 1: infinite variation with index exactly 1
                ms["params"]["c"] = W.r6(rng.uniform(0.3, 3.0))     # a central-cell variance well above the code's own quadrature accuracy
                ms["branch"] = W.cgmy_branch(ms["params"]["y"])
                iv_done = True
            elif ms["family"] == "CGMY":
                ms["params"]["y"] = W.r6(rng.uniform(0.05, 0.7))
                ms["branch"] = "0<y<1"
            if ms["family"] == "MERTON":
                ms["params"]["mu_j"] = min(ms["params"]["mu_j"], 0.05)
                ms["params"]["sigma_j"] = max(ms["params"]["sigma_j"], 0.08)
        g = G.gen_grid_spec(rng, "fixed", 2)
        g["n"] = int(rng.integers(5, 10))
        g["h"] = W.r6(W._logu(rng, 0.03, 0.2))
        cases.append({"model": cm, "rep": ["native", "ONEONE", "CENTER", "TILDE"][j % 4], "grid": g, "level": int(j % 2), "method": "INVERSION", "iv": True})
    if thorough:
        # two 3-d infinite-variation chains (minutes each: the code integrates the small jumps by nested quadrature in a pool)
        for j in range(2):
            cm = W.gen_copula_model_spec(rng, dim=3, kind="clayton", families=[["CGMY", "VG", "HEM"], ["HEM", "CGMY", "CGMY"]][j])
            for ms in cm["margins"]:
                if ms["family"] == "CGMY":
                    ms["params"]["y"] = W.r6(rng.uniform(1.05, 1.6))
                    ms["params"]["c"] = W.r6(rng.uniform(0.3, 2.0))
                    ms["branch"] = "1<y<2"
            cases.append({"model": cm, "rep": "native", "grid": {"ctor": "fixed", "dim": 3, "h": W.r6(rng.uniform(0.08, 0.15)), "n": 5}, "level": 0,
                          "method": "INVERSION", "iv": True})
    return cases


def _product():
    from rpylib.product.product import Product
    from rpylib.product.underlying import Spot
    from rpylib.product.payoff import Forward

    return Product(payoff_underlying=Spot(), payoff=Forward(strike=0.0), maturity=1.0)


def _set_rep(model, rep, R):
    """Present the model in the declared representation through the public LevyTriplet.set_representation."""
    from rpylib.model.levymodel.levymodel import LevyRepresentation

    if rep == "native":
        return model.levy_triplet.representation.name
    model.levy_triplet.set_representation(getattr(LevyRepresentation, rep))
    if R is not None:
        R.hit("representations_set")
    return rep


def _h_integral(rep, fv, dens, l, r, alpha, br):
    """integral over [l, r] of (x - h_rep(x)) nu(dx); returns (value, err) or None when outside the oracle's reach."""
    if rep == "CENTER":
        return 0.0, 0.0
    if rep == "ZERO" or (rep == "TILDE" and fv):
        if 1 - alpha < 0.25:
            return None
        return Q.integrate_xn(dens, l, r, 1, br, alpha)
    # ONEONE, or TILDE with infinite variation: h(x) = x 1{|x|<1}
    v, e = 0.0, 0.0
    if r > 1:
        a, b = Q.integrate_xn(dens, 1.0, r, 1, br, alpha)
        v, e = v + a, e + b
    if l < -1:
        a, b = Q.integrate_xn(dens, l, -1.0, 1, br, alpha)
        v, e = v + a, e + b
    return v, e


def run_case(case, R):
    R.evaluation()
    if "margins" in case["model"]:
        _run_nd(case, R)
    else:
        _run_1d(case, R)


def _run_1d(case, R):
    mspec, rep_req, lev, method = case["model"], case["rep"], case["level"], case["method"]
    label = W.model_label(mspec)
    model = W.build_model(mspec)
    if case.get("extra_sigma"):
        # a pure-jump model given a Brownian component through its public triplet (jumps of infinite variation AND sigma > 0)
        model.levy_triplet.sigma = float(case["extra_sigma"])
        R.hit("pure_jump_models_with_added_brownian_component")
    fv = bool(model.jump_of_finite_variation())
    if rep_req == "ZERO" and not fv:
        rep_req = "ONEONE"      # the ZERO representation does not exist for infinite variation
    try:
        rep = _set_rep(model, rep_req, R)
    except Exception as exc:  # noqa: BLE001
        R.violation(f"set-representation-raises-{rep_req}", f"{label}: set_representation({rep_req}) raises {type(exc).__name__}: {exc}",
                    {"model": mspec})
        return
    g = dict(case["grid"])
    try:
        grid = G.build_grid(g, model)
        for _ in range(lev):
            grid.refine()
    except (G.OutsideDomain, ValueError) as exc:
        R.skip("outside-domain: " + type(exc).__name__)
        return
    if len(grid.axes[0]) > 1500:
        R.skip("grid-too-large")
        return
    ctor = g["ctor"]
    a_rep = float(model.levy_triplet.a)
    sigma = float(model.levy_triplet.sigma)
    drift_model = float(model.drift())
    dens = model.levy_triplet.nu.__call__
    if case.get("after_narrow_chain") and ctor in ("fixed", "geometric_bounds"):
        # the model object first serves a chain on a narrow grid (the user's object must come out of it unchanged); the oracle of the
        # chain under test is read from an identical model built apart, before anything was done with it
        ref = W.build_model(mspec)
        if case.get("extra_sigma"):
            ref.levy_triplet.sigma = float(case["extra_sigma"])
        _set_rep(ref, rep_req, None)
        a_rep, sigma, drift_model, dens = float(ref.levy_triplet.a), float(ref.levy_triplet.sigma), float(ref.drift()), ref.levy_triplet.nu.__call__
        try:
            narrow = G.build_grid({"ctor": "fixed", "dim": 1, "h": float(g["_h"]) / 3.0, "n": 7}, model)
            p0, _ = C.build_chain(model, narrow, "ALIAS", False)
            p0.initialisation(_product())
            R.hit("model_object_used_by_an_earlier_chain")
        except Exception:  # noqa: BLE001  (the narrow chain itself is not the subject)
            pass
    alpha, br = W.activity_index(mspec), W.density_breakpoints(mspec)
    axis = np.asarray(grid.axes[0], dtype=float)
    l, r = float(axis[0]), float(axis[-1])
    o = grid.origin_coordinate.value
    R.klass(f"rep:{rep}")
    R.klass(f"1d:{ctor}:{method}")
    R.klass("exp" if mspec.get("exp") else "levy")
    R.klass("fv" if fv else "infinite-variation")
    try:
        proc, rec = C.build_chain(model, grid, method, False)
        proc.initialisation(_product())
    except Exception as exc:  # noqa: BLE001
        R.violation(f"1d-{method}-chain-raises", f"{label}/{ctor}: building/initialising the chain raises {type(exc).__name__}: {exc}",
                    {"model": mspec, "grid": g, "rep": rep})
        return
    lam = float(proc.intensity_of_jumps)
    if not (lam >= W.resolution_floor(mspec)):
        # (same domain rule as C01 - C03: a grid that carries less than a millionth of a compound-Poisson model's mass -- or none: rates 0/0)
        R.skip("chain intensity below 1e-9 (or a millionth of the model's intensity): cell masses under the resolution of the closed forms")
        return
    # rates as consumed by the sampler
    if method in ("ALIAS", "TABLE", "BINARYSEARCHTREE", "HUFFMANNTREE"):
        rates = rec.jump_vectors[-1] * lam
    elif method == "INVERSION":
        f = proc.sampling.probability_to_jump_to_state
        rates = np.array([0.0 if k == o else float(f(k - o)) * lam for k in range(axis.size)])
    else:
        if axis.size > 400:
            R.skip("bsta1d-too-large")
            return
        M = S.measure_sampler(method, proc.sampling, axis.size, None)
        rates = np.zeros(axis.size)
        for s_, ln in M.lengths().items():
            if 0 <= s_ + o < axis.size:
                rates[s_ + o] = ln * lam
    pd = proc.process_drift()
    pd = float(np.asarray(pd).reshape(-1)[0])
    chain_mean = pd + float(np.dot(axis, rates))
    wit = {"model": mspec, "rep": rep, "grid": g, "level": lev, "method": method}
    hi = _h_integral(rep, fv, dens, l, r, alpha, br)
    if hi is None:
        R.skip("mean-oracle-singularity-too-strong")
    else:
        comp, err = hi
        want = drift_model + a_rep + comp
        scale = 1.0 + abs(want) + float(np.dot(np.abs(axis), np.abs(rates)))
        R.hit("mean_comparisons")
        if not (abs(chain_mean - want) <= 1e-9 * scale + 10 * err):
            own_cells = "-own-cells" if method == "BINARYSEARCHTREEADAPTED1D" and ctor == "probstep" else ""
            R.violation(f"1d-mean-{rep}-{'fv' if fv else 'iv'}{own_cells}", f"{label} declared in {rep} (a = {a_rep!r}), {ctor} grid level {lev}, "
                        f"method {method}: chain mean per unit time = process_drift {pd!r} + sum x_k rate_k = {chain_mean!r}, but "
                        f"the truncated process has mean {want!r} (quadrature +-{err:.1e})", wit)
    # equivalent diffusion coefficient
    eq2 = float(proc.equivalent_diffusion_coefficient) ** 2
    bl = float(grid.middle(axis[o - 1], axis[o])) if grid.dimension == 1 else -grid.h / 2
    bu = float(grid.middle(axis[o], axis[o + 1]))
    R.hit("diffusion_comparisons")
    if fv:
        if not (abs(eq2 - sigma**2) <= 1e-12 * (1 + sigma**2)):
            R.violation("1d-diffusion-finite-variation", f"{label}: finite variation but equivalent diffusion^2 = {eq2!r} != sigma^2 = "
                        f"{sigma**2!r}", wit)
        central2 = None
    else:
        if 2 - alpha < 0.25:
            R.skip("variance-oracle-singularity-too-strong")
            central2 = None
        else:
            central2, e2 = Q.integrate_xn(dens, max(bl, -1.0), min(bu, 1.0), 2, br, alpha)
            if not (abs(eq2 - (sigma**2 + central2)) <= 1e-7 * (sigma**2 + central2) + 10 * e2 + 1e-14):
                R.violation("1d-diffusion-infinite-variation", f"{label}: infinite variation: equivalent diffusion^2 = {eq2!r}, expected "
                            f"sigma^2 + second moment of the central cell = {sigma**2 + central2!r}", wit)
    # ... and the coefficient the SIMULATED paths really carry, in the two jump-time modes (recorded normals against the diffusion
    #     increments of the returned path): sigma for finite variation, sqrt(sigma^2 + second moment of the central cell) otherwise
    want2 = sigma**2 if fv else (None if central2 is None else sigma**2 + central2)
    if want2 is not None and want2 > 0 and case.get("level", 0) <= 1 and len(axis) <= 400:
        from unittest import mock
        from .C15 import _product as product15

        for mode in ("jumptimes", "maxstep"):
            try:
                p2, _ = C.build_chain(model, grid, method, False)
                prod2 = product15(mode, 2, 0.9)
                p2.initialisation(prod2, max_step_epsilon=(0.2 if mode == "maxstep" else None))
                p2.pre_computation(2, prod2)
                normals = []
                orig_normal = np.random.normal

                def normal(*a_, **k_):
                    out = orig_normal(*a_, **k_)
                    normals.append(np.array(out, dtype=float, copy=True).reshape(-1))
                    return out

                with mock.patch.object(np.random, "normal", normal):
                    path = p2.simulate_one_path()
            except Exception as exc:  # noqa: BLE001
                R.violation(f"1d-simulate-raises-{mode}", f"{label}/{ctor}: simulate_one_path ({mode}) raises {type(exc).__name__}: {exc}", wit)
                break
            t2 = np.asarray(path.jump_times, dtype=float)
            dD = np.diff(np.asarray(path.diffusion_path, dtype=float).reshape(-1))
            w = next((a_ for a_ in reversed(normals) if a_.size == dD.size), None)
            if w is None or dD.size == 0 or np.any(w == 0):
                R.skip("simulated-diffusion-normals-not-matched")
                continue
            c_used = dD / (np.sqrt(np.diff(t2)) * w)
            R.hit("simulated_diffusion_coefficients")
            if not (np.max(np.abs(c_used**2 - want2)) <= 1e-6 * want2 + 1e-14):
                R.violation(f"1d-simulated-diffusion-coefficient-{'fv' if fv else 'iv'}-{mode}", f"{label}/{ctor} level {lev}, {mode} mode: the diffusion increments of "
                            f"the simulated path are sqrt(dt) w times {float(np.median(np.abs(c_used)))!r}; sigma = {sigma!r}, sigma^2 + second moment of the central "
                            f"cell = {want2!r} (square root {want2 ** 0.5!r})", wit)
    # ... and the deterministic paths the multilevel path managers are given: at level l the fine component follows the drift of a chain
    #     built apart on the grid refined l times, the coarse component the one of level l - 1 (both start at the same point)
    if lev == 0 and ctor in ("fixed", "geometric_bounds") and len(axis) <= 200:
        from rpylib.montecarlo.path import MLMCPath
        from rpylib.process.coupling.couplingmarkovchain import CouplingMarkovChain
        from rpylib.process.markovchain.markovchain import MarkovChainProcess

        try:
            def apart(level):
                mo = W.build_model(mspec)
                if case.get("extra_sigma"):
                    mo.levy_triplet.sigma = float(case["extra_sigma"])
                _set_rep(mo, rep_req, None)
                gr = G.build_grid(dict(case["grid"]), mo)
                for _ in range(level):
                    gr.refine()
                pr = MarkovChainProcess(model=mo, method=C.sampling_method(method), grid=gr)
                pr.initialisation(_product())
                return pr.deterministic_path

            mc = W.build_model(mspec)
            if case.get("extra_sigma"):
                mc.levy_triplet.sigma = float(case["extra_sigma"])
            _set_rep(mc, rep_req, None)
            cp = CouplingMarkovChain(model=mc, method=C.sampling_method(method), grid=G.build_grid(dict(case["grid"]), mc))
            cp.initialisation(_product())
            cp.pre_computation(2, _product())
            pms = [MLMCPath(deterministic_path=cp.fine_process.deterministic_path, activate_spot_underlying=False)]
            tt = np.array([0.0, 0.4, 1.0])
            prev = apart(0)
            for level in (1, 2):
                cp.next_level(2, pms, _product())
                now = apart(level)
                got_pm = np.asarray(pms[-1].deterministic_path(tt), dtype=float).reshape(2, -1)
                want_pm = np.stack([np.asarray(now(tt), dtype=float).reshape(-1), np.asarray(prev(tt), dtype=float).reshape(-1)])
                R.hit("multilevel_path_manager_drifts")
                if not np.allclose(got_pm, want_pm, rtol=1e-10, atol=1e-12):
                    which = "fine" if not np.allclose(got_pm[0], want_pm[0], rtol=1e-10, atol=1e-12) else "coarse"
                    R.violation(f"1d-path-manager-{which}-deterministic-path-level-{'1' if level == 1 else '2+'}", f"{label}/{ctor} declared in {rep}: the path manager of level "
                                f"{level} moves (fine, coarse) along {got_pm.tolist()} at t = {tt.tolist()}; chains built apart at levels {level} and {level - 1}: "
                                f"{want_pm.tolist()}", wit)
                    break
                prev = now
        except Exception as exc:  # noqa: BLE001
            R.violation("1d-coupling-path-manager-raises", f"{label}/{ctor}: {type(exc).__name__}: {exc}", wit)
    # variance gap bounded by the per-cell oscillation of x^2
    if 2 - alpha >= 0.25:
        lo_b, hi_b, _ = C.cell_boundaries_1d(grid)
        tot2, e3 = Q.integrate_xn(dens, l, r, 2, br, alpha)
        model_var = sigma**2 + tot2
        chain_var = eq2 + float(np.dot(axis**2, rates))
        bound = 0.0
        for k in range(axis.size):
            if k == o:
                continue
            osc = max(abs(lo_b[k] ** 2 - axis[k] ** 2), abs(hi_b[k] ** 2 - axis[k] ** 2))
            bound += osc * max(rates[k], 0.0)
        if fv:
            # nothing is added for the central cell: its own second moment is part of the admissible gap
            c2, _ = Q.integrate_xn(dens, bl, bu, 2, br, alpha)
            bound += c2
        R.hit("variance_bound_checks")
        if not (abs(chain_var - model_var) <= bound * (1 + 1e-9) + 1e-9 * (1 + model_var) + 10 * e3):
            R.violation(f"1d-variance-bound-{'fv' if fv else 'iv'}", f"{label}/{ctor} level {lev}: chain variance {chain_var!r} vs model "
                        f"{model_var!r}: gap {abs(chain_var - model_var)!r} exceeds the cell-oscillation bound {bound!r}", wit)
    if int(np.sum(rates > 0)) >= 2:
        R.nontrivial_case(label, mspec["params"], rep, {k: v for k, v in g.items() if not k.startswith("_")}, lev, method)
    R.sample({"model": label, "rep": rep, "a_rep": a_rep, "grid": g, "level": lev, "method": method, "process_drift": pd,
              "chain_mean": chain_mean})


def _run_nd(case, R):
    cm, rep_req, lev, method = case["model"], case["rep"], case["level"], case["method"]
    label = W.copula_label(cm)
    model = W.build_copula_model(cm)
    d = model.dimension()
    reps = []
    for ms, m in zip(cm["margins"], model.models):
        rr = rep_req
        if rr == "ZERO" and not m.jump_of_finite_variation():
            rr = "ONEONE"
        reps.append(_set_rep(m, rr, R))
    g = dict(case["grid"])
    try:
        grid = G.build_grid(g, model)
        for _ in range(lev):
            grid.refine()
    except (G.OutsideDomain, ValueError) as exc:
        R.skip("outside-domain: " + type(exc).__name__)
        return
    sizes = [len(a) for a in grid.axes]
    if math.prod(sizes) > 500:
        R.skip("nd-grid-too-large")
        return
    ctor = g["ctor"]
    R.klass(f"{d}d:{ctor}")
    try:
        proc, rec = C.build_chain(model, grid, method, True)
        proc.initialisation(_product())
    except Exception as exc:  # noqa: BLE001
        R.violation(f"nd-chain-raises", f"{label}/{ctor}: building/initialising the copula chain raises {type(exc).__name__}: {exc}",
                    {"model": cm, "grid": g})
        return
    lam = float(proc.intensity_of_jumps)
    origin = list(grid.origin_coordinate)
    f = proc.sampling.probability_to_jump_to_state
    pd = np.asarray(proc.process_drift(), dtype=float).reshape(-1)
    rate_x = np.zeros(d)
    absx = np.zeros(d)
    for s in itertools.product(*[range(n) for n in sizes]):
        if list(s) == origin:
            continue
        rt = float(f(tuple(si - oi for si, oi in zip(s, origin)))) * lam
        for k in range(d):
            x = float(grid.axes[k][s[k]])
            rate_x[k] += x * rt
            absx[k] += abs(x) * rt
    tails = []
    for ms, m, tr in zip(cm["margins"], model.models, grid.truncations):
        dens = m.levy_triplet.nu.__call__
        al, br = W.activity_index(ms), W.density_breakpoints(ms)
        t1, _ = Q.integrate_xn(dens, float(tr[1]), math.inf, 0, br, al)
        t2, _ = Q.integrate_xn(dens, -math.inf, float(tr[0]), 0, br, al)
        tails.append(t1 + t2)
    for k, (ms, m) in enumerate(zip(cm["margins"], model.models)):
        dens = m.levy_triplet.nu.__call__
        al, br = W.activity_index(ms), W.density_breakpoints(ms)
        l, r = (float(v) for v in grid.truncations[k])
        fv = bool(m.jump_of_finite_variation())
        hi = _h_integral(reps[k], fv, dens, l, r, al, br)
        if hi is None:
            R.skip("mean-oracle-singularity-too-strong")
            continue
        comp, err = hi
        want = float(m.drift()) + float(m.levy_triplet.a) + comp
        got = float(pd[k]) + rate_x[k]
        slack = max(abs(l), abs(r)) * sum(t for j, t in enumerate(tails) if j != k)
        R.hit("nd_margin_mean_comparisons")
        if not (abs(got - want) <= slack + 1e-8 * (1 + abs(want) + absx[k]) + 10 * err):
            R.violation(f"nd-margin-mean-{reps[k]}", f"{label}/{ctor}: margin {k} ({W.model_label(ms)}, declared {reps[k]}): chain mean "
                        f"{got!r} vs truncated margin mean {want!r}; admissible slack (mass outside the box) {slack!r}",
                        {"model": cm, "grid": g, "margin": k})
    _nd_diffusion(R, cm, model, proc, grid, label, ctor, {"model": cm, "grid": g})
    R.nontrivial_case(label, cm, rep_req, {k: v for k, v in g.items() if not k.startswith("_")}, lev)
    R.sample({"copula_model": label, "reps": reps, "grid": g, "process_drift": pd.tolist()})


def _nd_diffusion(R, cm, model, proc, grid, label, ctor, wit):
    """variance matrix of the Brownian part of a copula chain: diag(sigma_k^2), plus -- for an infinite-variation model -- the second
    moments of the jumps inside the central cell.  Oracle for the central cell (uniform grid, cell (-h/2, h/2]^d): layer-cake formula
    int x_i^2 dnu = 2 int_0^{h/2} s nu(x_i > s, x in cell) ds + (negative side) on the harness corner-sum masses."""
    from scipy.integrate import quad

    D = np.asarray(proc._path_simulation.diffusion_matrix, dtype=float)
    d = model.dimension()
    var = D @ D.T
    sig2 = np.array([float(m.diffusion_coefficient()) ** 2 for m in model.models])
    R.hit("nd_diffusion_comparisons")
    if all(bool(m.jump_of_finite_variation()) for m in model.models):      # a process has finite variation iff each component has
        if not np.allclose(var, np.diag(sig2), rtol=1e-10, atol=1e-14):
            R.violation("nd-diffusion-finite-variation", f"{label}/{ctor}: finite variation but the variance matrix of the Brownian part is {var.tolist()}, "
                        f"diag(sigma^2) = {sig2.tolist()}", wit)
        return
    if ctor != "fixed":
        R.skip("nd-central-cell-oracle-only-for-uniform-grids")
        return
    h = float(grid.h)
    half = min(h / 2, 1.0)
    oracle = C.CopulaMassOracle(cm, model.copula, model.models, [(-math.inf, math.inf)] * d)
    for k in range(d):
        def layer(s, sgn, k=k):
            a, b = [-half] * d, [half] * d
            if sgn > 0:
                a[k], b[k] = s, half
            else:
                a[k], b[k] = -half, -s
            return s * oracle.mass(a, b)

        tot, err = 0.0, 0.0
        for sgn in (1, -1):
            v, e = quad(layer, 0.0, half, args=(sgn,), limit=200, epsabs=1e-10, epsrel=1e-8)
            tot += 2 * v
            err += 2 * e
        want = sig2[k] + tot
        # the code asks its own quadrature for an absolute accuracy of 1e-3 on an integral it then multiplies by 2 / h^(d-1)
        tol = 1e-3 * 2 / h ** (d - 1) + 1e-6 * want + 10 * err + 100 * oracle.max_err * h
        R.hit("nd_central_cell_second_moments")
        if tol < 0.25 * tot:
            R.hit("nd_central_cell_second_moments_decisive")
        if not (abs(var[k, k] - want) <= tol):
            R.violation("nd-diffusion-infinite-variation", f"{label}/{ctor} (h = {h}): variance of the Brownian part of margin {k} = {float(var[k, k])!r}, "
                        f"sigma^2 + second moment of the jumps inside the central cell = {want!r} (layer-cake quadrature +-{err:.1e}; "
                        f"marginal bound {float(model.models[k].levy_triplet.nu.integrate_against_xx(-half, half))!r})", wit)
    # off-diagonal entries: int x_i x_j dnu over the central cell = sum over the four quadrants of (+-) int int nu(quadrant corner box) ds_i ds_j
    def cross(i, j, swap):
        """adaptive (QUADPACK) integration per quadrant; the two orders of integration use different node sets"""
        from scipy.integrate import dblquad

        def box(si, sj, p, q):
            a, b = [-half] * d, [half] * d
            a[i], b[i] = (si, half) if p > 0 else (-half, -si)
            a[j], b[j] = (sj, half) if q > 0 else (-half, -sj)
            return a, b

        tot = 0.0
        tiny = 1e-9 * half
        for p in (1, -1):
            for q in (1, -1):
                def f(s_in, s_out, p=p, q=q):
                    si, sj = (s_in, s_out) if swap else (s_out, s_in)
                    return p * q * oracle.mass(*box(si, sj, p, q))

                if oracle.mass(*box(tiny, tiny, p, q)) == 0.0:
                    continue        # no mass in this quadrant (eta in {0, 1}, dependent / independent components)
                tot += dblquad(f, 0.0, half, 0.0, half, epsabs=1e-6, epsrel=1e-6)[0]
        return tot

    for i in range(d):
        for j in range(i + 1, d):
            c1, c2 = cross(i, j, False), cross(i, j, True)
            errc = abs(c2 - c1)
            tolc = 1e-3 / h ** (d - 2) + 1e-6 * abs(c2) + 10 * errc
            R.hit("nd_central_cell_cross_moments")
            if not (abs(var[i, j] - c2) <= tolc and abs(var[j, i] - c2) <= tolc):
                R.violation("nd-diffusion-infinite-variation-cross-term", f"{label}/{ctor} (h = {h}): covariance of the Brownian parts of margins {i}, {j} = "
                            f"{float(var[i, j])!r}, cross moment of the jumps inside the central cell = {c2!r} (adaptive quadrature of the layer-cake "
                            f"integrand; other order of integration: {c1!r})", wit)
            if tolc < 0.25 * abs(c2):
                R.hit("nd_central_cell_cross_moments_decisive")
