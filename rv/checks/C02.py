"""C02 -- every state sampler realises exactly the target law, independent of call history.

Monitor: the map uniform -> state of every sampler is measured exactly (rv.piecewise) through the
single-uniform entry point; the batch call is driven by scripted variate sources and compared element by
element; the same uniforms are replayed in different orders on long-lived and fresh samplers.
Oracle: the probability vector handed to the constructor (raw workloads) or the independent quadrature
cell masses of C01 (chain workloads).
"""
from __future__ import annotations

import itertools
import math

import numpy as np

from .. import chain as C, gridspec as G, piecewise as PW, samplers as S, workloads as W

ID = "C02"
RULE = ("case = raw probability vector (length 1..300; zeros, ties, dominant, tiny entries, sums off by ulps) x method in "
        "{ALIAS, TABLE, BINARYSEARCHTREE, HUFFMANNTREE}, or chain (model, grid, level) x every method the factory accepts "
        "(1-d: 6 methods, n-d: INVERSION, BINARYSEARCHTREEADAPTED); per sampler: exact measurement of u -> state, batch vs "
        "single-uniform, 4 replay orders; non-trivial = sampler with >= 2 states of positive probability; distinct = distinct "
        "(vector class + seed | model, grid, level) x method")
ASSUMPTIONS = [
    "no piece narrower than the probe spacing hides between two equal neighbours (probes: >= 20K uniform points, k/K +- ulp, "
    "partial sums of the target +- ulp, 0, 1-ulp); pre-image lengths exact to ~1e-15",
    "Table method: law measured exactly over the 2^32 words; required to match p up to (K+8)*2^-24 per state: the alias step "
    "sees the 24 high bits only (one lattice step of K*2^-24 per alias column, a state can be the alias of up to K columns)",
    "a set of uniforms of measure <= 1e-12 next to 1 may be answered arbitrarily (floating-point total of the probabilities)",
    "chain targets are the quadrature cell masses of C01 (tolerance 1e-8 relative + 1e-12)",
]
REQUIRED_COUNTERS = ["uniforms_at_the_lower_end_point", "laws_measured", "batch_elements_compared", "history_replays", "zero_probability_states_watched",
                     "table_words_classes", "infinite_variation_copula_chains", "used_sampler_copies", "second_model_on_the_same_grid"]
MIN_NONTRIVIAL = {"quick": 80, "thorough": 600}
SHARD_TIMEOUT = {"quick": 900, "thorough": 7200}
TOP = 1e-12


def _vector(rng, klass, n):
    if klass == "uniform":
        p = np.ones(n)
    elif klass == "random":
        p = rng.random(n) + 1e-3
    elif klass == "zeros":
        p = rng.random(n)
        p[rng.random(n) < 0.4] = 0.0
        if p.sum() == 0:
            p[0] = 1.0
    elif klass == "ties":
        p = rng.integers(1, 4, size=n).astype(float)
    elif klass == "dominant":
        p = rng.random(n) * 1e-4
        p[int(rng.integers(n))] = 1.0
    elif klass == "tiny":
        p = rng.random(n)
        p[rng.random(n) < 0.3] *= 1e-13
    elif klass == "dyadic":
        p = 2.0 ** -rng.integers(1, 12, size=n).astype(float)
    elif klass == "geometric":
        p = 0.7 ** np.arange(n)
    else:
        raise ValueError(klass)
    p = p / p.sum()
    return p


VCLASSES = ["uniform", "random", "zeros", "ties", "dominant", "tiny", "dyadic", "geometric"]


def gen_cases(tier, seed):
    rng = np.random.default_rng(seed + 200)
    rng2 = np.random.default_rng(seed + 20200)        # (own stream: the cases drawn from `rng` stay what they were)
    thorough = tier == "thorough"
    cases = []
    lengths = [1, 2, 3, 5, 8, 16, 17, 31, 64, 100, 255, 256, 257, 300]
    for i, (klass, n) in enumerate(itertools.product(VCLASSES, lengths if thorough else [1, 2, 3, 8, 17, 64, 257])):
        for method in S.RAW_METHODS:
            if method == "TABLE" and (n > (64 if not thorough else 300) or (not thorough and i % 3)):
                continue
            if not thorough and (i + hash(method) % 7) % 2 and n > 17:
                continue
            cases.append({"kind": "raw", "klass": klass, "n": n, "method": method, "seed": int(rng.integers(2**31)),
                          "ulp_off": int(rng.integers(-3, 4)), "pivot": int(rng.integers(0, n + 1))})
    # chains: 1-d
    fixed = W.fixed_model_specs()
    models = fixed[::3] + [W.gen_model_spec(rng) for _ in range(6 if not thorough else 60)]
    i = 0
    for m in models:
        for ctor in G.CTORS_1D:
            i += 1
            if not thorough and i % 2:
                continue
            g = G.gen_grid_spec(rng, ctor, 1)
            if ctor == "uniform":
                g["h_div"] = W.r6(rng.uniform(2.5, 12.0))
            if ctor == "fixed":
                g["n"] = int(rng.integers(5, 30))
            lev = int(rng.integers(0, 3 if thorough else 2))
            meths = list(C.METHODS_1D) if thorough else [C.METHODS_1D[(len(cases) + k) % 6] for k in (0, 2, 3)]
            cases.append({"kind": "chain", "model": m, "grid": g, "level": lev, "methods": meths, "seed": int(rng.integers(2**31)),
                          "refine_after": bool(i % 4 < 2)})
            if ctor != "probstep" and i % 4 == 3:
                cases[-1]["then"] = W.gen_model_spec(rng2, family=m["family"], branch=m.get("branch"), exp=m["exp"])
    # every method once more in a fixed "use, refine, rebuild" sequence
    for k, meth in enumerate(C.METHODS_1D):
        g = G.gen_grid_spec(rng, ["fixed", "uniform", "geometric"][k % 3], 1)
        if g["ctor"] == "fixed":
            g["n"] = 13
        if g["ctor"] == "uniform":
            g["h_div"] = 6.0
        cases.append({"kind": "chain", "model": fixed[(2 * k) % len(fixed)], "grid": g, "level": 0, "methods": [meth],
                      "seed": int(rng.integers(2**31)), "refine_after": True})
        # ... and then a second model of the same family on the very same grid object, in the same process: its samplers realise
        # ITS law (state shared between the samplers of different models, e.g. a cache keyed by the cell bounds only)
        m0 = cases[-1]["model"]
        cases[-1]["then"] = W.gen_model_spec(rng2, family=m0["family"], branch=m0.get("branch"), exp=m0["exp"])
    # one-sided measures (upward jumps only / downward jumps only): every state of the other side has probability zero
    for k in range(2 if not thorough else 8):
        m = W.gen_model_spec(rng, "HEM", exp=False)
        m["params"]["p"] = 1.0 if k % 2 == 0 else 1e-300          # (p = 0 is refused by the parameter class)
        cases.append({"kind": "chain", "model": m, "grid": {"ctor": "fixed", "dim": 1, "h": W.r6(rng.uniform(0.02, 0.08)), "n": int(rng.choice([7, 9, 13]))}, "level": 0,
                      "methods": list(C.METHODS_1D), "seed": int(rng.integers(2**31)), "refine_after": False})
    # chains: n-d (finite-variation margins: see C01)
    n2 = n3 = 0
    for j in range(8 if not thorough else 60):
        dim = 3 if j % 4 == 3 else 2
        # (own cycles, coprime with the constructor cycles: in dimension 3 every case has mass off the axes)
        kind = ["clayton", "dependent"][(j // 4) % 2] if dim == 3 else ["clayton", "independent", "clayton", "dependent", "clayton"][j % 5]
        cm = W.gen_copula_model_spec(rng, dim=dim, kind=kind)
        W.limit_variation(rng, cm, allow_infinite=(dim == 2 and j % 4 == 2))
        for ms in cm["margins"]:
            if ms["family"] == "MERTON":
                ms["params"]["mu_j"] = min(ms["params"]["mu_j"], 0.05)
                ms["params"]["sigma_j"] = max(ms["params"]["sigma_j"], 0.08)
        # credit_asym / uniform: the origin is not centred, the state enumeration has to skip outside indices
        if dim == 2:
            ctor = ["credit_asym", "uniform", "fixed", "geometric_bounds", "credit", "geometric"][n2 % 6]
            n2 += 1
        else:
            ctor = ["credit_asym", "fixed", "geometric_bounds"][n3 % 3]
            n3 += 1
        g = G.gen_grid_spec(rng, ctor, dim)
        if ctor == "fixed":
            g["n"] = int(rng.integers(5, 10 if dim == 2 else 6))
            g["h"] = W.r6(W._logu(rng, 0.02, 0.2))
        if ctor in ("geometric", "geometric_bounds"):
            g["n_side"] = int(rng.integers(2, 5 if dim == 2 else 3))
        if ctor == "uniform":
            g["h_div"] = W.r6(rng.uniform(2.5, 4.0))
        cases.append({"kind": "chain", "model": cm, "grid": g, "level": 0, "methods": list(C.METHODS_ND), "seed": int(rng.integers(2**31)),
                      "refine_after": bool(j % 2 == 0 and dim == 2)})
    # markedly off-centre origin in 2-d (many more states on one side): the inversion enumeration skips whole runs of indices
    for j in range(2 if not thorough else 10):
        e1, e2 = (W.r6(rng.uniform(5, 9)), W.r6(rng.uniform(25, 40))) if j % 2 == 0 else (W.r6(rng.uniform(25, 40)), W.r6(rng.uniform(5, 9)))
        margins = [{"family": "HEM", "params": {"sigma": 0.1, "p": 0.5, "eta1": e1, "eta2": e2, "intensity": W.r6(rng.uniform(1, 5))}, "exp": False}
                   for _ in range(2)]
        cm = {"margins": margins, "copula": W.gen_copula_spec(rng, "clayton")}
        cases.append({"kind": "chain", "model": cm, "grid": {"ctor": "uniform", "dim": 2, "h_div": W.r6(rng.uniform(2.2, 3.2)), "p": 0.99},
                      "level": 0, "methods": ["INVERSION"], "seed": int(rng.integers(2**31))})
    # the inversion sampler beyond its storage limit (limit lowered on the instance), centred and off-centre grids
    for dim_ in (2, 3):
        for nl_, nr_ in ((2, 1), (3, 1), (4, 1), (1, 3), (2, 2), (1, 4), (3, 2)):
            for st_ in ((3, 13) if not thorough else (2, 3, 5, 8, 13, 21)):
                cases.append({"kind": "inversion-storage", "nl": nl_, "nr": nr_, "dim": dim_, "storage": st_, "seed": int(rng.integers(2**31))})
    if thorough:
        for j in range(12):
            cases.append({"kind": "inversion-storage", "nl": int(rng.integers(1, 6)), "nr": int(rng.integers(1, 6)), "dim": 2 + j % 2,
                          "storage": int(rng.integers(3, 30)), "seed": int(rng.integers(2**31))})
    return cases


# ---------------------------------------------------------------------------------------------------------
def _judge_law(R, keyp, desc, lengths, target, tol_each, witness, allowed_states):
    """lengths: {state_index: measure}; target: array over indices."""
    n = len(target)
    bad = []
    for k in range(n):
        R.hit("states_compared")
        got = lengths.get(k, 0.0)
        if target[k] == 0.0:
            R.hit("zero_probability_states_watched")
        if not (abs(got - target[k]) <= tol_each[k]):
            bad.append(k)
    for s, ln in lengths.items():
        if s not in allowed_states and not (isinstance(s, tuple) and s and s[0] == "raises"):
            R.violation(keyp + "-inadmissible-state", f"{desc}: returns inadmissible state {s} on a set of uniforms of measure {ln!r}", witness)
    if bad:
        k = bad[0]
        R.violation(keyp + "-law", f"{desc}: {len(bad)} state(s) receive a set of uniforms whose length differs from p_k; e.g. state {k}: "
                    f"measured {lengths.get(k, 0.0)!r}, target {float(target[k])!r}", witness)


def _history(R, keyp, desc, make_fn, us, witness):
    """same uniforms, different orders / fresh samplers: the state for a given uniform must not change"""
    ref = None
    rng = np.random.default_rng(len(us))
    orders = {"sorted": sorted(us), "reversed": sorted(us, reverse=True), "shuffled": [us[i] for i in rng.permutation(len(us))],
              "repeated": [us[i] for i in rng.integers(0, len(us), size=2 * len(us))] + list(us)}
    for oname, order in orders.items():
        f = make_fn()
        R.hit("history_replays")
        table = {}
        for u in order:
            try:
                v = f(u)
            except Exception as exc:  # noqa: BLE001
                v = ("raises", type(exc).__name__)
            if u in table and table[u] != v and u < 1 - TOP:
                R.violation(keyp + "-history", f"{desc}: uniform {u!r} gave {table[u]} and later {v} on the same sampler ({oname} order)", witness)
                return
            table[u] = v
        if ref is None:
            ref = table
        else:
            diff = [u for u in us if table[u] != ref[u] and u < 1 - TOP]
            if diff:
                R.violation(keyp + "-history", f"{desc}: replay order '{oname}' changes the state of uniform {diff[0]!r}: "
                            f"{ref[diff[0]]} -> {table[diff[0]]}", witness)
                return
    # fresh sampler per call
    for u in us[:: max(1, len(us) // 8)]:
        try:
            v = make_fn()(u)
        except Exception as exc:  # noqa: BLE001
            v = ("raises", type(exc).__name__)
        if v != ref[u] and u < 1 - TOP:
            R.violation(keyp + "-history", f"{desc}: a fresh sampler maps {u!r} to {v}, a used one to {ref[u]}", witness)
            return


def _probe_us(rng, n=48):
    us = list(rng.random(n)) + [0.0, 1e-300, 1e-9, 0.5, 1 - 1e-9, 1 - 1e-7, 1 - 1e-5, 0.999]
    us = sorted(set(float(u) for u in us))
    # in no particular order (a batch call must answer each uniform at its own position), with a repeated value
    us = [us[i] for i in rng.permutation(len(us))]
    return us + [us[0]]


def run_case(case, R):
    R.evaluation()
    kind = case["kind"]
    if kind == "raw":
        _run_raw(case, R)
    elif kind == "chain":
        _run_chain(case, R)
    else:
        _run_storage(case, R)


def _nondet(R, keyp, desc, M, witness):
    for u, a, b in M.nondeterministic:
        if u < 1 - TOP:
            R.violation(keyp + "-nondeterministic", f"{desc}: uniform {u!r} evaluated twice gives {a} then {b}", witness)
            return
        R.hit("top_sliver_answers_vary")


def _run_raw(case, R):
    rng = np.random.default_rng(case["seed"])
    n, method, klass = case["n"], case["method"], case["klass"]
    p = _vector(rng, klass, n)
    if case["ulp_off"] and n > 1:
        k = int(rng.integers(n))
        x = float(p[k])
        for _ in range(abs(case["ulp_off"])):
            x = math.nextafter(x, math.inf if case["ulp_off"] > 0 else 0.0)
        p[k] = x
    pivot = case["pivot"]
    desc = f"{method} on a '{klass}' vector of length {n}"
    keyp = f"raw-{method}"
    witness = {"case": case, "p_head": p[:8].tolist()}
    R.klass(f"raw:{method}:{klass}")
    size_class = "single-state" if n == 1 else "multi-state"
    try:
        sampler = S.build_raw(method, p, pivot)
    except Exception as exc:  # noqa: BLE001
        R.violation(f"{keyp}-constructor-raises-{size_class}", f"{desc}: constructor raises {type(exc).__name__}: {exc}", witness)
        return
    allowed = set(range(n))
    tol = 1e-13 + 8 * n * np.finfo(float).eps + 4 * np.finfo(float).eps * np.ones(n)
    tol = np.full(n, 1e-13 + 8 * n * np.finfo(float).eps)
    if method == "TABLE":
        with S.getrandbits_cell() as cell:
            def fword(w):
                cell[0] = int(w)
                return S._scalar(sampler.sample(1)[0]) + pivot

            try:
                law, evals, classes = S.measure_table_fn(fword, n, thorough=False)
            except Exception as exc:  # noqa: BLE001
                R.violation(f"{keyp}-sample-raises", f"{desc}: sample(1) raises {type(exc).__name__}: {exc}", witness)
                return
        R.hit("laws_measured")
        R.hit("table_words_classes", classes)
        R.hit("sampler_evaluations", evals)
        _judge_law(R, keyp, desc, law, p, np.full(n, (n + 8) * 2.0 ** -24 + 1e-13), witness, allowed)
        # batch: scripted words
        words = [int(w) for w in rng.integers(0, 2**32, size=40)]
        with S.getrandbits_cell() as cell:
            singles = []
            for w in words:
                cell[0] = w
                singles.append(S._scalar(sampler.sample(1)[0]))
        try:
            with S.scripted_getrandbits(words):
                batch = [S._scalar(x) for x in sampler.sample(len(words))]
            R.hit("batch_elements_compared", len(words))
            if batch != singles:
                R.violation(f"{keyp}-batch-differs", f"{desc}: sample(size) differs from one-by-one sampling of the same words", witness)
        except Exception as exc:  # noqa: BLE001
            R.violation(f"{keyp}-batch-raises", f"{desc}: sample({len(words)}) raises {type(exc).__name__}: {exc}", witness)
    else:
        f0 = S.single_u_function(method, sampler)

        def f(u):
            return f0(u) + pivot

        try:
            M = PW.measure(f, PW.standard_probes(n, p))
        except Exception as exc:  # noqa: BLE001
            R.violation(f"{keyp}-single-uniform-raises-{size_class}", f"{desc}: the single-uniform entry point raises "
                        f"{type(exc).__name__}: {exc}", witness)
            return
        R.hit("laws_measured")
        R.hit("sampler_evaluations", M.evaluations)
        _nondet(R, keyp, desc, M, witness)
        _judge_law(R, keyp, desc, M.lengths(), p, tol, witness, allowed)
        us = _probe_us(rng)
        singles = [f0(u) for u in us]
        try:
            with S.scripted_uniform(us):
                batch = [S._scalar(x) for x in sampler.sample(len(us))]
            R.hit("batch_elements_compared", len(us))
            if batch != singles:
                i = next(i for i, (a, b) in enumerate(zip(batch, singles)) if a != b)
                R.violation(f"{keyp}-batch-differs", f"{desc}: sample(size) returns {batch[i]} for uniform {us[i]!r}, the single-uniform "
                            f"entry point {singles[i]}", witness)
        except Exception as exc:  # noqa: BLE001
            side = "two-sided-states" if pivot > 0 else "non-negative-states"
            R.violation(f"{keyp}-batch-raises-{side}", f"{desc} (pivot {pivot}): sample({len(us)}) raises {type(exc).__name__}: {exc}", witness)
        _history(R, keyp, desc, lambda: S.single_u_function(method, S.build_raw(method, p, pivot)), us, witness)
    if np.sum(p > 0) >= 2:
        R.nontrivial_case("raw", klass, n, method, case["seed"])
    if n == 8 and klass == "zeros":
        R.sample({"kind": "raw", "method": method, "p": p.tolist()})


def _run_chain(case, R):
    mspec, lev = case["model"], case["level"]
    is_copula = "margins" in mspec
    rng = np.random.default_rng(case["seed"])
    try:
        model, grid, g = C.build_grid_and_model(mspec, case["grid"], lev)
        if "margins" in mspec and not model.jump_of_finite_variation():
            R.hit("infinite_variation_copula_chains")
    except (G.OutsideDomain, ValueError) as exc:
        R.skip("outside-domain: " + type(exc).__name__)
        return
    _chain_body(case, R, mspec, model, grid, g, lev, rng, is_copula)
    if case.get("refine_after"):
        # the sequence the multilevel engine runs: the samplers of level l have been used, the grid is refined in place and a
        # new chain is built in the same process -- its sampler must realise ITS OWN law (no state shared across samplers)
        grid.refine()
        R.klass("sequence:refined-after-use")
        _chain_body(case, R, mspec, model, grid, g, lev + 1, rng, is_copula)
        lev += 1
    if case.get("then") and not is_copula:
        mspec2 = case["then"]
        try:
            model2 = W.build_any_model(mspec2)
        except (G.OutsideDomain, ValueError) as exc:
            R.skip("outside-domain: " + type(exc).__name__)
            return
        R.klass("sequence:second-model-on-the-same-grid")
        R.hit("second_model_on_the_same_grid")
        _chain_body(case, R, mspec2, model2, grid, g, lev, rng, is_copula)


def _chain_body(case, R, mspec, model, grid, g, lev, rng, is_copula):
    label = W.any_label(mspec)
    d = grid.dimension
    sizes = [len(a) for a in grid.axes]
    if math.prod(sizes) > (400 if d == 1 else ((150 if len(case['methods']) > 1 else 500) if d == 2 else 350)):
        R.skip("grid-too-large-for-law-measurement")
        return
    ctor = g["ctor"]
    if not is_copula:
        rates, errs, lo, hi, _ = C.oracle_rates_1d(mspec, model, grid)
        o = grid.origin_coordinate.value
        states = [k - o for k in range(sizes[0])]
        want = {k - o: rates[k] for k in range(sizes[0])}
        werr = {k - o: errs[k] for k in range(sizes[0])}
        origin_state = 0
    else:
        origin = list(grid.origin_coordinate)
        oracle = C.CopulaMassOracle(mspec, model.copula, model.models, [(-math.inf, math.inf)] * d)
        bounds = []
        for k in range(d):
            ax = np.asarray(grid.axes[k], dtype=float)
            mids = [0.5 * (float(ax[i]) + float(ax[i + 1])) for i in range(ax.size - 1)]
            bounds.append((np.array([ax[0]] + mids), np.array(mids + [ax[-1]])))
        want, werr = {}, {}
        for s in itertools.product(*[range(n) for n in sizes]):
            inc = tuple(si - oi for si, oi in zip(s, origin))
            if list(s) == origin:
                want[inc] = 0.0
            else:
                want[inc] = oracle.mass([float(bounds[k][0][s[k]]) for k in range(d)], [float(bounds[k][1][s[k]]) for k in range(d)])
            werr[inc] = 0.0
        origin_state = tuple([0] * d)
        states = list(want)
    lam = sum(want.values())
    if lam < W.resolution_floor(mspec):
        R.skip("chain intensity below 1e-9 (or a millionth of the model's intensity): cell masses under the resolution of the closed forms")
        return
    order = sorted(want)
    target = np.array([max(want[s], 0.0) / lam for s in order])
    index = {s: i for i, s in enumerate(order)}
    K = len(order)
    for method in case["methods"]:
        desc = f"{label}/{ctor} level {lev} {d}-d chain, method {method}"
        keyp = f"chain{d}d-{method}"
        witness = {"model": mspec, "grid": g, "level": lev, "method": method}
        R.klass(f"chain{d}d:{method}")
        R.klass("ctor:" + ctor)

        def make(method=method):
            proc, _ = C.build_chain(model, grid, method, is_copula)
            return proc

        try:
            proc = make()
        except Exception as exc:  # noqa: BLE001
            R.violation(f"{keyp}-constructor-raises", f"{desc}: constructor raises {type(exc).__name__}: {exc}", witness)
            continue
        sampler = proc.sampling
        tol_o = (1e-8 * target + 1e-12) if not is_copula else (1e-7 + 0 * target)
        # closed-form masses of a compound-Poisson measure are differences of distribution functions: absolute rounding ~1e-16 x the total
        # intensity of the MODEL, i.e. 4e-16 x that intensity / the intensity of the chain on the scale of the probabilities
        tol_o = tol_o + 4e-16 * (W.resolution_floor(mspec) / 1e-6 if W.resolution_floor(mspec) > 1e-9 else 0.0) / lam
        if method == "BINARYSEARCHTREEADAPTED1D" and ctor == "probstep":
            # this sampler uses its own (arithmetic) cells: C01 judges the tiling; here only exactness/history are judged
            tol_o = np.full(K, 2.0)
        if method == "TABLE":
            o = grid.origin_coordinate.value
            with S.getrandbits_cell() as cell:
                def fword(w):
                    cell[0] = int(w)
                    return S._scalar(sampler.sample(1)[0])

                try:
                    law, evals, classes = S.measure_table_fn(fword, K)
                except Exception as exc:  # noqa: BLE001
                    R.violation(f"{keyp}-sample-raises", f"{desc}: sample(1) raises {type(exc).__name__}: {exc}", witness)
                    continue
            R.hit("laws_measured")
            R.hit("table_words_classes", classes)
            lengths = {index.get(s, ("outside", s)): v for s, v in law.items()}
            _judge_law(R, keyp, desc, lengths, target, tol_o + (K + 8) * 2.0 ** -24, witness, set(range(K)) - {index[origin_state]})
            words = [int(w) for w in rng.integers(0, 2**32, size=30)]
            with S.getrandbits_cell() as cell:
                singles = []
                for w in words:
                    cell[0] = w
                    singles.append(S._scalar(sampler.sample(1)[0]))
            try:
                with S.scripted_getrandbits(words):
                    batch = [S._scalar(x) for x in sampler.sample(len(words))]
                R.hit("batch_elements_compared", len(words))
                if batch != singles:
                    R.violation(f"{keyp}-batch-differs", f"{desc}: batch differs from one-by-one", witness)
            except Exception as exc:  # noqa: BLE001
                R.violation(f"{keyp}-batch-raises", f"{desc}: sample(n) raises {type(exc).__name__}: {exc}", witness)
        else:
            high = float(getattr(getattr(sampler, "uniform", None), "high", 1.0))
            f0 = S.single_u_function(method, sampler)

            def f(u, f0=f0, high=high):
                try:
                    return f0(u * high)
                except Exception as exc:  # noqa: BLE001
                    return ("raises", type(exc).__name__)

            M = PW.measure(f, PW.standard_probes(K, target, factor=20 if d == 1 else 12))
            R.hit("laws_measured")
            R.hit("sampler_evaluations", M.evaluations)
            _nondet(R, keyp, desc, M, witness)
            lens = M.lengths()
            # anomalies confined to [1 - 1e-12, 1) are exempt (the floating-point total of the probabilities is not exactly 1)
            low = {}
            for a_, b_, s_ in M.pieces:
                ln = min(b_, 1 - TOP) - a_
                if ln > 0:
                    low[s_] = low.get(s_, 0.0) + ln
            raised = {s: v for s, v in lens.items() if isinstance(s, tuple) and s and s[0] == "raises"}
            for s, v in raised.items():
                where = "top-sliver" if low.get(s, 0.0) == 0 else "below-the-top-sliver"
                if low.get(s, 0.0) > 0:
                    R.violation(f"{keyp}-raises-{where}", f"{desc}: raises {s[1]} on a set of uniforms of measure {v!r}", witness)
                else:
                    R.hit("top_sliver_raises")
            lengths = {}
            for s, v in lens.items():
                if s in raised:
                    continue
                lengths[index.get(s, ("outside", s))] = v
            adm = set(range(K)) - {index[origin_state]}
            # a state of probability zero / the origin / a state outside the grid must never be returned, not even on a sliver
            low_idx = {index.get(s, ("outside", s)): v for s, v in low.items()}
            for s, v in lengths.items():
                if (s not in adm) and v > 0 and low_idx.get(s, 0.0) == 0:
                    R.hit("top_sliver_inadmissible_state")
                if (s not in adm) and low_idx.get(s, 0.0) > 0:
                    what = "origin" if s == index[origin_state] else "outside-grid"
                    R.violation(f"{keyp}-returns-{what}", f"{desc}: returns the {what} state on a set of uniforms of measure {v!r}", witness)
            _judge_law(R, keyp, desc, {s: v for s, v in lengths.items() if s in adm or s == index[origin_state]}, target,
                       tol_o + 1e-12, witness, set(range(K)))
            # the end point u = 0 (and the smallest positive doubles) is a value of the uniform like any other: the state it is sent to has
            # a positive probability
            for u0 in (0.0, 5e-324, 1e-300):
                try:
                    s0 = f(u0)
                except Exception as exc:  # noqa: BLE001
                    R.violation(f"{keyp}-raises-at-u-equal-0", f"{desc}: raises {type(exc).__name__} for the uniform {u0!r}", witness)
                    break
                R.hit("uniforms_at_the_lower_end_point")
                k0 = index.get(s0, None)
                if k0 is None or k0 == index[origin_state] or target[k0] == 0.0:
                    what0 = "outside the grid" if k0 is None else ("the origin" if k0 == index[origin_state] else "a state of probability zero")
                    # (keyed by the method alone: the same interval convention in every dimension)
                    R.violation(f"uniform-at-the-lower-end-point-sent-to-" + what0.replace(" ", "-") + f"-{method}", f"{desc}: the uniform {u0!r} is sent to {s0!r}, {what0} "
                                f"(target probability {0.0 if k0 is None else float(target[k0])!r})", witness)
                    break
            us = _probe_us(rng, 30)
            singles = [f(u) for u in us]
            try:
                with S.scripted_uniform([u * high for u in us]):
                    batch = [S._scalar(x) for x in sampler.sample(len(us))]
                R.hit("batch_elements_compared", len(us))
                dif = [i for i, (a, b) in enumerate(zip(batch, singles)) if a != b and us[i] < 1 - TOP]
                if dif:
                    i = dif[0]
                    R.violation(f"{keyp}-batch-differs", f"{desc}: sample(size) returns {batch[i]} for uniform {us[i]!r}, the "
                                f"single-uniform entry point {singles[i]}", witness)
            except Exception as exc:  # noqa: BLE001
                R.violation(f"{keyp}-batch-raises", f"{desc}: sample({len(us)}) raises {type(exc).__name__}: {exc}", witness)

            def make_fn(method=method):
                smp = make().sampling
                hi = float(getattr(getattr(smp, "uniform", None), "high", 1.0))
                g0 = S.single_u_function(method, smp)
                return lambda u: g0(u * hi)

            _history(R, keyp, desc, make_fn, us, witness)
            # copies of the USED sampler (the engines deep-copy the process for every level and pickle it for the workers): same law
            import copy
            import dill

            for how, clone in (("deepcopy", lambda: copy.deepcopy(proc).sampling), ("dill-round-trip", lambda: dill.loads(dill.dumps(sampler)))):
                try:
                    smp2 = clone()
                    hi2 = float(getattr(getattr(smp2, "uniform", None), "high", 1.0))
                    g2 = S.single_u_function(method, smp2)
                    got2 = [g2(u * hi2) for u in us]
                except Exception as exc:  # noqa: BLE001
                    R.skip(f"sampler-not-copyable[{how}]: {type(exc).__name__}")
                    continue
                R.hit("used_sampler_copies")
                dif = [i for i, (a_, b_) in enumerate(zip(got2, singles)) if a_ != b_ and us[i] < 1 - TOP]
                if dif:
                    i = dif[0]
                    R.violation(f"{keyp}-copy-of-a-used-sampler-differs", f"{desc}: a {how} of the used sampler maps uniform {us[i]!r} to {got2[i]}, the "
                                f"sampler itself to {singles[i]}", witness)
                    break
        if np.sum(target > 0) >= 2:
            R.nontrivial_case("chain", label, mspec, {k: v for k, v in g.items() if not k.startswith("_")}, lev, method)
    R.sample({"kind": "chain", "model": label, "grid": g, "level": lev, "states": K, "methods": case["methods"]})


def _run_storage(case, R):
    """Scaled-down run of the inversion sampler beyond its storage limit (_max_storage lowered on the instance):
    the state returned for a uniform must not depend on the storage limit nor on earlier draws."""
    from rpylib.distribution.pairing import PairingToZd, Szudzik, RosenbergStrong, StatesManager, Domain, Boundary
    from rpylib.distribution.variate.inversion import InversionMethod
    from .C14 import _make_grid

    dim, nl, nr = case["dim"], case["nl"], case["nr"]
    rng = np.random.default_rng(case["seed"])
    grid = _make_grid(dim, nl, nr)
    states = [s for s in itertools.product(range(-nl, nr + 1), repeat=dim) if any(s)]
    w = rng.random(len(states)) + 0.05
    w /= w.sum()
    pmap = dict(zip(states, w))

    def build(storage):
        pairing = PairingToZd(pairing=Szudzik() if dim == 2 else RosenbergStrong(), dimension=dim)
        sm = StatesManager(pairing=pairing, domain=Domain(boundary=Boundary(), grid=grid, pairing=pairing), grid=grid)
        inv = InversionMethod(lambda inc: pmap[tuple(int(v) for v in inc)], sm)
        if storage:
            inv._max_storage = storage
        return inv

    us = _probe_us(rng, 40)
    ref = build(None)
    want = {u: S._scalar(ref.sample_with_u(u)) for u in us}
    small = build(case["storage"])
    R.hit("history_replays")
    shape = "sym" if nl == nr else "asym"
    for u in [us[i] for i in rng.permutation(len(us))] + us:
        v = S._scalar(small.sample_with_u(u))
        if v != want[u] and u < 1 - TOP:
            R.violation(f"inversion-beyond-storage-limit-{dim}d-{shape}", f"inversion sampler on a {dim}-d grid ({nl} left / {nr} right) with "
                        f"storage limit {case['storage']}: uniform {u!r} -> {v}, unlimited storage -> {want[u]}", {"case": case})
            break
    R.klass("inversion-storage")
    R.nontrivial_case("storage", dim, nl, nr, case["storage"])
