"""C11 -- the Levy copulas are Levy copulas: grounded, d-increasing, uniform margins; Clayton conditional
distribution / inverse / mixed derivative.

Monitor: the real copula callables and the library's volume / margin operators on generated argument
vectors and rectangles; oracle: harness-side 2^d corner sums, Richardson-extrapolated finite differences of
the library's own F, monotonicity on meshes.
"""
from __future__ import annotations

import itertools
import math

import numpy as np

from .. import workloads as W

ID = "C11"
RULE = ("case = (copula in {Clayton(theta, eta) incl. eta in {0,1}, independent, dependent}, dimension 2|3, seed): 40 argument "
        "vectors of every sign pattern with magnitudes 1e-14..1e14 and 0 / +-inf entries, 40 rectangles of (-inf,inf]^d (incl. "
        "straddling 0 and infinite sides), margins on 30 points, Clayton conditional distribution on a 400-point mesh + 60 "
        "round trips, mixed derivative on 30 points; non-trivial = copula with at least one rectangle of positive volume; "
        "distinct = distinct (kind, parameters, dimension)")
ASSUMPTIONS = [
    "volumes are compared with -1e-12 * (sum of |corner values|): floating-point cancellation scale of the 2^d-corner sum",
    "mixed derivative relation decided by integration (scipy nquad, 1e-9) against exact F-volumes, not by numerical differentiation",
]
REQUIRED_COUNTERS = ["inverse_roundtrips_in_the_tails", "degenerate_rectangles", "tiny_magnitude_rectangles", "grounded_checks", "volume_checks", "margin_checks", "conditional_monotone_checks", "inverse_roundtrips",
                     "mixed_derivative_checks", "copula_parameter_reassigned", "volume_checks_all_infinite_upper_corner"]
MIN_NONTRIVIAL = {"quick": 30, "thorough": 300}
THOROUGH_ROUNDS = 8      # the thorough tier runs the generators this many times (different seeds)


def gen_cases(tier, seed):
    rng = np.random.default_rng(seed + 1100)
    n = 14 if tier == "quick" else 200
    cases = []
    fixed = [{"kind": "clayton", "theta": 0.7, "eta": 0.3}, {"kind": "clayton", "theta": 2.5, "eta": 0.0},
             {"kind": "clayton", "theta": 0.25, "eta": 1.0}, {"kind": "clayton", "theta": 6.0, "eta": 0.5},
             {"kind": "independent"}, {"kind": "dependent"}]
    specs = fixed + [W.gen_copula_spec(rng, "clayton") for _ in range(n)]
    for c in specs:
        for d in (2, 3):
            cases.append({"copula": c, "dim": d, "seed": int(rng.integers(2**31))})
    return cases


def _mag(rng):
    r = rng.random()
    if r < 0.12:     # far tails of a Levy measure give tiny tail integrals, the neighbourhood of 0 huge ones
        return float(10 ** rng.uniform(-14, 14))
    return float(10 ** rng.uniform(-8, 8)) if r < 0.3 else float(10 ** rng.uniform(-2, 2))


def _vec(rng, d, special=True):
    v = np.array([_mag(rng) * (1 if rng.random() < 0.5 else -1) for _ in range(d)])
    if special and rng.random() < 0.25:
        v[int(rng.integers(d))] = math.inf if rng.random() < 0.5 else -math.inf
    return v


def _volume(F, a, b):
    """harness-side 2^d corner sum; returns (volume, cancellation scale)"""
    d = len(a)
    tot, scale = 0.0, 0.0
    for p in itertools.product([0, 1], repeat=d):
        corner = np.array([ai if pi == 0 else bi for pi, ai, bi in zip(p, a, b)], dtype=float)
        sgn = -1.0 if (d - sum(p)) % 2 else 1.0
        v = float(F(corner))
        tot += sgn * v
        scale += abs(v)
    return tot, scale


def _mixed_partial(F, u):
    """Richardson-extrapolated central-difference mixed partial d^d F / du_1 ... du_d at u (all entries finite, non-zero)."""
    d = len(u)

    def cd(h_rel):
        hs = [abs(x) * h_rel for x in u]
        tot = 0.0
        for p in itertools.product([-1, 1], repeat=d):
            pt = np.array([x + s * h for x, s, h in zip(u, p, hs)], dtype=float)
            tot += np.prod(p) * float(F(pt))
        return tot / np.prod([2 * h for h in hs])

    h = 2e-3 if d == 2 else 6e-3
    a, b = cd(h), cd(h / 2)
    return (4 * b - a) / 3, abs(b - a)


def run_case(case, R):
    from rpylib.model.levycopulamodel import volume as lib_volume, margin as lib_margin

    R.evaluation()
    c, d = case["copula"], case["dim"]
    rng = np.random.default_rng(case["seed"])
    F = W.build_copula(c)
    kind = c["kind"]
    label = kind + (f"[eta={c['eta']:g}]" if kind == "clayton" and c["eta"] in (0.0, 1.0) else "") + f"-{d}d"
    wit = {"copula": c, "dim": d}
    R.klass(label)
    # ---- grounded --------------------------------------------------------------------------------------------
    for _ in range(40):
        u = _vec(rng, d)
        k = int(rng.integers(d))
        u[k] = 0.0
        if rng.random() < 0.3:
            u[int(rng.integers(d))] = 0.0
        R.hit("grounded_checks")
        v = float(F(np.array(u)))
        if v != 0.0:
            R.violation(f"{kind}-not-grounded", f"{label}: F({u.tolist()}) = {v!r} although an argument is 0", wit)
            break
    # ---- d-increasing: volumes of rectangles --------------------------------------------------------------------
    positive = 0
    for _ in range(40):
        a, b = np.empty(d), np.empty(d)
        for k in range(d):
            mode = rng.random()
            x, y = sorted([_mag(rng) * (1 if rng.random() < 0.5 else -1), _mag(rng) * (1 if rng.random() < 0.5 else -1)])
            if mode < 0.3:      # (the corners live in (-inf, inf]^d: -inf is not an admissible coordinate)
                y = math.inf
            elif mode < 0.4:
                x, y = -abs(x) - 1e-3, abs(y) + 1e-3     # straddling 0
            if x == y:
                y = x + abs(x) * 0.5 + 1e-9
            a[k], b[k] = x, y
        all_inf = bool(np.all(np.isinf(b)))
        if all_inf and rng.random() < 0.5:
            b[int(rng.integers(d))] = abs(_mag(rng)) + max(0.0, float(np.max(a[np.isfinite(a)], initial=0.0)))
            all_inf = False
        R.hit("volume_checks")
        vol, scale = _volume(F, a, b)
        if all_inf:
            # every upper end is +inf: the volume is +inf or finite, never negative, never undefined (F(inf, ..., inf) = sum of u_i for
            # independent components, eta * inf for Clayton)
            R.hit("volume_checks_all_infinite_upper_corner")
            # (when every corner value is finite -- eta = 0 -- the corner sum carries its own rounding)
            if not (vol >= (-1e-12 * scale if math.isfinite(scale) else 0.0)):
                R.violation(f"{kind}-{d}d-negative-volume-all-infinite-upper-corner", f"{label}: the rectangle ({a.tolist()}, {b.tolist()}] has volume {vol!r} "
                            f"(F at the all-infinite corner = {float(F(np.full(d, math.inf)))!r})", wit)
                break
            continue
        if not (vol >= -1e-12 * scale - 1e-300):
            orth = "straddling-0" if any(x < 0 < y for x, y in zip(a, b)) else "single-orthant"
            R.violation(f"{kind}-{d}d-negative-volume-{orth}", f"{label}: the rectangle ({a.tolist()}, {b.tolist()}] has volume {vol!r} < 0 "
                        f"(corner magnitude {scale!r})", wit)
            break
        if vol > 1e-9 * scale:
            positive += 1
        lv = float(lib_volume(lambda g: F(np.array(list(g), dtype=float)), list(a), list(b)))
        if not (abs(lv - vol) <= 1e-12 * scale + 1e-300):
            R.violation("library-volume-operator-differs", f"{label}: levycopulamodel.volume gives {lv!r}, the 2^d-corner sum {vol!r}", wit)
            break
    # ---- rectangles with a side of zero length (a_k = b_k): empty, volume 0 -- through the library's operator too -----------------------------
    for _ in range(10):
        a = np.array([_mag(rng) * (1 if rng.random() < 0.5 else -1) for _ in range(d)])
        b = a + np.abs(a) * rng.uniform(0.1, 3.0, size=d)
        kz = int(rng.integers(d))
        b[kz] = a[kz]
        if d == 3 and rng.random() < 0.3:
            b[(kz + 1) % 3] = a[(kz + 1) % 3]
        R.hit("degenerate_rectangles")
        vol, scale = _volume(F, a, b)
        lv = float(lib_volume(lambda g: F(np.array(list(g), dtype=float)), list(a), list(b)))
        if not (abs(vol) <= 1e-12 * scale + 1e-300 and abs(lv) <= 1e-12 * scale + 1e-300):
            R.violation(f"{kind}-{d}d-empty-rectangle-has-volume", f"{label}: the rectangle ({a.tolist()}, {b.tolist()}] has a side of zero length; 2^d-corner sum {vol!r}, "
                        f"levycopulamodel.volume {lv!r}", wit)
            break
    # ---- arguments of very small magnitude (1e-200 .. 1e-165: their product underflows), every orthant ------------------------------------------
    if kind != "clayton" or c["theta"] <= 1.4:          # (|u|^-theta stays inside the double range)
        for _ in range(12):
            sg = np.array([1.0 if rng.random() < 0.5 else -1.0 for _ in range(d)])
            lo_ = 10.0 ** rng.uniform(-200, -165, size=d)
            a, b = np.minimum(sg * lo_, sg * lo_ * 2.0), np.maximum(sg * lo_, sg * lo_ * 2.0)
            R.hit("tiny_magnitude_rectangles")
            vol, scale = _volume(F, a, b)
            if not (vol >= -1e-12 * scale):
                R.violation(f"{kind}-{d}d-negative-volume-tiny-arguments", f"{label}: the rectangle ({a.tolist()}, {b.tolist()}] has volume {vol!r} < 0 (corner magnitude {scale!r})", wit)
                break
            fu = float(F(np.array(b)))
            if kind == "clayton" and 0.0 < c["eta"] < 1.0 and fu != 0.0 and (fu > 0) != (np.prod(sg) > 0):
                R.violation(f"{kind}-{d}d-sign-of-F-tiny-arguments", f"{label}: F({b.tolist()}) = {fu!r}, the product of the signs of the arguments is {np.prod(sg)!r}", wit)
                break
    # ---- one-dimensional margins are the identity ------------------------------------------------------------------
    for i in range(d):
        m = lib_margin(F, [i], d)
        for _ in range(10):
            u = _mag(rng) * (1 if rng.random() < 0.5 else -1)
            R.hit("margin_checks")
            got = float(m([u]))
            # harness-side definition as well
            others = [k for k in range(d) if k != i]
            own = 0.0
            for p in itertools.product([-math.inf, math.inf], repeat=d - 1):
                arr = np.zeros(d)
                arr[i] = u
                sg = 1.0
                for k, v in zip(others, p):
                    arr[k] = v
                    sg *= -1.0 if v < 0 else 1.0
                own += sg * float(F(arr))
            if not (abs(own - u) <= 1e-12 * abs(u)):
                R.violation(f"{kind}-{d}d-margin-not-identity", f"{label}: margin {i} at u = {u!r} is {own!r}", wit)
                break
            if not (abs(got - own) <= 1e-12 * abs(u)):
                R.violation("library-margin-operator-differs", f"{label}: levycopulamodel.margin gives {got!r}, definition {own!r}", wit)
                break
    # ---- Clayton: conditional distribution, inverse, mixed derivative ---------------------------------------------------
    if kind == "clayton":
        if d == 2:
            _conditional(F, c, rng, R, label, wit)
            # theta re-assigned on the same object (it is a validated, settable attribute): every method must follow
            theta2 = W.r6(W._logu(rng, 0.2, 8.0))
            F.theta = theta2
            R.hit("copula_parameter_reassigned")
            _conditional(F, dict(c, theta=theta2), rng, R, label + f"[theta re-assigned to {theta2}]", wit, suffix="-after-theta-reassigned")
            F.theta = c["theta"]
        _mixed(F, c, d, rng, R, label, wit)
    else:
        R.hit("conditional_monotone_checks", 0)
    if positive:
        R.nontrivial_case(kind, c, d)
    R.sample({"copula": c, "dim": d, "F(1,..,1)": float(F(np.ones(d))), "F(-1,1,..)": float(F(np.array([-1.0] + [1.0] * (d - 1))))})


def _conditional(F, c, rng, R, label, wit, suffix=""):
    for eps in [float(_mag(rng) * s) for s in (1, -1, 1, -1)] + [1.0, -1.0, 1e-6, -1e6]:
        xs = np.concatenate([-np.logspace(8, -8, 200), [-1e-300, -0.0, 0.0, 1e-300], np.logspace(-8, 8, 200)])      # (the origin included)
        with np.errstate(all="ignore"):
            vals = np.array([float(F.conditional_distribution(eps, np.array([x]))[0]) for x in xs])
        R.hit("conditional_monotone_checks")
        if np.any(np.diff(vals) < -1e-13) or vals[0] < -1e-13 or vals[-1] > 1 + 1e-13 or np.any(~np.isfinite(vals)):
            i = int(np.argmin(np.diff(vals)))
            R.violation("clayton-conditional-distribution-not-a-distribution" + suffix, f"{label}: F_eps(x) for eps = {eps!r} is not a distribution "
                        f"function in x: values {vals[i]!r} -> {vals[i + 1]!r} at x = {xs[i]!r} -> {xs[i + 1]!r}; range [{vals[0]!r}, {vals[-1]!r}]", wit)
            return
        lo_lim = float(F.conditional_distribution(eps, np.array([-1e300]))[0])
        hi_lim = float(F.conditional_distribution(eps, np.array([1e300]))[0])
        if not (abs(lo_lim) <= 1e-9 and abs(hi_lim - 1) <= 1e-9):
            R.violation("clayton-conditional-distribution-limits" + suffix, f"{label}: F_eps(-1e300) = {lo_lim!r}, F_eps(1e300) = {hi_lim!r} for eps = {eps!r}", wit)
            return
        # inverse round trips
        for _ in range(8):
            y = float(rng.uniform(1e-6, 1 - 1e-6))
            # avoid the value taken at the jump-free point x = 0 (the inverse is not defined there)
            at0 = (1 - c["eta"]) if eps >= 0 else c["eta"]
            if abs(y - at0) < 1e-6:
                continue
            R.hit("inverse_roundtrips")
            x = float(np.asarray(F.inverse_conditional_distribution(np.array([eps]), np.array([y]))).reshape(-1)[0])
            if not np.isfinite(x):
                if (c["eta"] in (0.0, 1.0)):
                    continue   # y outside the range of F_eps when all the mass sits on one side
                R.violation("clayton-inverse-conditional-not-finite" + suffix, f"{label}: inverse_conditional_distribution(eps={eps!r}, y={y!r}) = {x!r}", wit)
                return
            back = float(F.conditional_distribution(eps, np.array([x]))[0])
            if not (abs(back - y) <= 1e-9):
                R.violation("clayton-inverse-conditional-does-not-invert" + suffix, f"{label}: F_eps(inverse(y)) = {back!r} for y = {y!r}, eps = {eps!r} "
                            f"(inverse = {x!r})", wit)
                return
            # ... and far in the tails of the conditional law (probabilities 1e-15 .. 1e-10 away from 0 and from 1)
            tail = 10.0 ** float(rng.uniform(-15, -10))
            for yt in (tail, 1.0 - tail):
                if (c["eta"] in (0.0, 1.0)) or abs(yt - at0) < 1e-9:
                    continue
                with np.errstate(all="ignore"):
                    xt = float(np.asarray(F.inverse_conditional_distribution(np.array([eps]), np.array([yt]))).reshape(-1)[0])
                    bt = float(F.conditional_distribution(eps, np.array([xt]))[0]) if np.isfinite(xt) else (0.0 if xt < 0 else 1.0)
                R.hit("inverse_roundtrips_in_the_tails")
                # (1 - y carries a rounding of 1e-16: the probability is recovered to half of the tail mass + 4e-15)
                if not (abs(bt - yt) <= 0.5 * min(yt, 1 - yt) + 4e-15):
                    R.violation("clayton-inverse-conditional-does-not-invert-in-the-tails" + suffix, f"{label}: F_eps(inverse(y)) = {bt!r} for y = {yt!r}, eps = {eps!r} "
                                f"(inverse = {xt!r})", wit)
                    return
            x0 = float(10 ** rng.uniform(-3, 3)) * (1 if rng.random() < 0.5 else -1)
            y0 = float(F.conditional_distribution(eps, np.array([x0]))[0])
            if 1e-9 < y0 < 1 - 1e-9 and abs(y0 - at0) > 1e-9:
                x1 = float(np.asarray(F.inverse_conditional_distribution(np.array([eps]), np.array([y0]))).reshape(-1)[0])
                if not (abs(x1 - x0) <= 1e-6 * abs(x0)):
                    R.violation("clayton-inverse-conditional-does-not-invert" + suffix, f"{label}: inverse(F_eps({x0!r})) = {x1!r} (eps = {eps!r})", wit)
                    return


def _mixed(F, c, d, rng, R, label, wit):
    """x_first_derivative(u) versus (mixed partial of F) * prod(u) -- the relation as worded in the property -- decided
    without numerical differentiation: the relation holds iff for every rectangle inside one orthant the integral of
    x_first_derivative(u) / prod(u) over the rectangle equals the F-volume of the rectangle (exact 2^d corner sum)."""
    from scipy.integrate import nquad

    for _ in range(5 if d == 2 else 2):
        signs = [1 if rng.random() < 0.5 else -1 for _ in range(d)]
        lo = [float(10 ** rng.uniform(-1.0, 1.0)) for _ in range(d)]
        hi = [x * float(rng.uniform(1.2, 2.0)) for x in lo]
        a = [min(s * x, s * y) for s, x, y in zip(signs, lo, hi)]
        b = [max(s * x, s * y) for s, x, y in zip(signs, lo, hi)]
        vol, scale = _volume(F, a, b)

        def g_prop(*u):
            uu = np.array(u, dtype=float)
            return float(F.x_first_derivative(u=uu)) / float(np.prod(uu))

        def g_sign(*u):
            uu = np.array(u, dtype=float)
            return float(F.x_first_derivative(u=uu)) * float(np.prod(np.sign(uu)))

        opts = {"epsabs": 0, "epsrel": 1e-9}
        i_prop, e1 = nquad(g_prop, list(zip(a, b)), opts=opts)
        i_sign, e2 = nquad(g_sign, list(zip(a, b)), opts=opts)
        R.hit("mixed_derivative_checks")
        tol = 1e-7 * abs(vol) + 1e-12 * scale + 10 * max(e1, e2)
        if abs(vol) < 1e-9 * scale:
            R.skip("mixed-derivative-rectangle-of-negligible-volume")
            continue
        if not (abs(i_prop - vol) <= tol):
            if abs(i_sign - vol) <= tol:
                key = "clayton-x_first_derivative-is-mixed-partial-times-sign-product"
            else:
                key = "clayton-x_first_derivative-unrelated-to-mixed-partial"
            R.violation(key, f"{label}: over the rectangle ({a}, {b}] the F-volume is {vol!r}; integral of x_first_derivative(u)/prod(u) "
                        f"= {i_prop!r}; integral of x_first_derivative(u)*prod(sign(u)) = {i_sign!r}", wit)
            return
