"""C05 -- multilevel estimator = sum of per-level means over exactly the simulated samples.

Monitor: the real multilevel Engine (adaptive price() and the fixed-level variant) with real MLMCStatistics / MLMCPath /
Product, driven by a scripted coupling process whose every sample has a unique id and unique (fine, coarse) values and is
logged when simulated; record-only wrappers on Statistic.add / Statistic.extend (row written, allocated rows).
Oracle: a sequential reference model fed by the event log (numpy on the logged samples).
"""
from __future__ import annotations

import math

import numpy as np

from ..scripted_process import ScriptedCoupling, BudgetExceeded

ID = "C05"
RULE = ("case = (profile of per-level means / standard deviations / costs, rmse, initial level, N0, maximum level, variant in "
        "{adaptive, fixed-level}); after the run: Nl = number of samples logged per level, stored rows = the logged (fine, coarse) "
        "pairs (each once, no placeholder row), price = sum of per-level means of fine - coarse over the log, coarse = 0 at level 0, "
        "ml / vl / mean_level_l / var_level_l / cl / cost / kurtosis recomputed from the log; online: every add(level, i) writes a "
        "fresh row below the allocated size; non-trivial = run with >= 2 passes or >= 1 level added late; distinct = distinct "
        "history signature (levels, passes, per-pass sizes)")
ASSUMPTIONS = ["the scripted coupling process stands for any coupling process (the engine only sees the interface)",
               "kurtosis is compared on profiles whose per-level sample variance is >= 1 (below, the statement does not fix the formula)",
               "sample budget 2e6 per run: beyond it the run is inconclusive, not a violation"]
REQUIRED_COUNTERS = ["runs_adaptive", "runs_fixed_level", "rows_checked", "levels_added_late", "multi_pass_runs", "add_events",
                     "vector_payoff_runs", "control_variate_runs", "control_rows_checked", "adjusted_series_checks", "price_checks", "multi_process_runs", "scripted_allocation_histories", "runs_on_an_engine_that_priced_before"]
MIN_NONTRIVIAL = {"quick": 40, "thorough": 500}
SHARD_TIMEOUT = {"quick": 900, "thorough": 7200}


def gen_cases(tier, seed):
    rng = np.random.default_rng(seed + 500)
    n = 96 if tier == "quick" else 1600
    cases = []
    for i in range(n):
        kind = ["geometric", "plateau", "zero-variance-level", "cost-spike", "slow-decay"][i % 5]
        cases.append({"seed": int(rng.integers(2**31)), "profile": kind, "variant": "fixed" if i % 6 == 5 else "adaptive",
                      "rmse_exp": float(rng.uniform(-2.2 if tier == "thorough" else -1.5, -0.3)), "budget": 2_000_000 if tier == "thorough" else 150_000, "L0": int(rng.choice([0, 1, 2, 2, 3, 4])), "N0": int(rng.choice([2, 5, 20, 100, 200])),
                      "Lmax_extra": int(rng.integers(0, 7)), "beta": float(rng.uniform(0.6, 2.2)), "alpha": float(rng.uniform(0.5, 1.5)),
                      "rates_given": bool(i % 3 != 0), "scale": float(rng.choice([1.0, 30.0])),
                      "dim": int([1, 1, 2, 1, 3, 1, 1][i % 7]), "ncv": int([0, 1, 0, 2, 0, 0, 1, 0][i % 8]),
                      "cv_prices": ["scalar", "vector"][(i // 8) % 2]})
        if i % 16 == 5:
            # samples simulated by a pool of two worker processes (scalar payoff, no control): small runs, the pools are slow to start
            cases[-1].update({"workers": 2, "dim": 1, "ncv": 0, "budget": 3000, "rmse_exp": float(rng.uniform(-0.9, -0.3)), "N0": int(rng.choice([5, 20])),
                              "Lmax_extra": int(rng.integers(0, 3)), "variant": "adaptive"})
    # scripted allocation histories (a convergence-criteria object written here): small top-ups (below and above 1%) next to large ones, level
    # additions in between -- every sequence of passes is legal for the engine, the reported figures come from exactly the simulated samples
    for i in range(12 if tier == "quick" else 200):
        cases.append({"seed": int(rng.integers(2**31)), "profile": ["geometric", "slow-decay"][i % 2], "variant": "adaptive", "rmse_exp": -1.0, "budget": 150_000,
                      "L0": int(rng.choice([0, 1, 2])), "N0": int(rng.choice([100, 150, 400])), "Lmax_extra": int(rng.integers(1, 4)), "beta": 1.5, "alpha": 1.0,
                      "rates_given": True, "scale": 1.0, "dim": 1, "ncv": 0, "cv_prices": "scalar",
                      "script": [[float(rng.choice([1.0, 1.004, 1.008, 1.012, 1.05, 1.5, 2.2])) for _ in range(8)] for _ in range(int(rng.integers(3, 9)))],
                      "tests_failed": int(rng.integers(0, 3))})
    return cases


def scripted_criteria(case):
    """a ConvergenceCriteria whose allocation replays the scripted factors (relative to what has been simulated so far) and whose stopping
    test fails a given number of times"""
    from rpylib.montecarlo.multilevel.criteria import ConvergenceCriteria

    state = {"current": None, "call": 0, "tests": 0}

    def compute(rmse, vl, cl):
        n = len(vl)
        cur = state["current"]
        if cur is None:
            cur = np.full(n, case["N0"], dtype=float)
        if len(cur) < n:
            cur = np.append(cur, [0.0] * (n - len(cur)))
        row = case["script"][min(state["call"], len(case["script"]) - 1)] if state["call"] < len(case["script"]) else [1.0] * 8
        state["call"] += 1
        ns = np.array([math.ceil(cur[k] * row[k % len(row)]) if cur[k] > 0 else 7 for k in range(n)], dtype=int)
        state["current"] = np.maximum(cur, ns).astype(float)
        return ns

    def criteria(alpha, ml, rmse):
        state["tests"] += 1
        return state["tests"] > case["tests_failed"]

    return ConvergenceCriteria(criteria=criteria, compute_mc_paths=compute)


def make_profile(case):
    """deterministic, unique values: sample k of level l -> (fine, coarse)"""
    kind, beta, alpha, scale = case["profile"], case["beta"], case["alpha"], case["scale"]
    rng0 = np.random.default_rng(case["seed"] + 11)
    wobble = rng0.uniform(0.7, 1.3, size=40)

    def sd(l):
        v = scale * 2.0 ** (-beta * l / 2) * wobble[l]
        if kind == "plateau" and 2 <= l <= 3:
            v = scale * 2.0 ** (-beta)
        if kind == "zero-variance-level" and l == 2:
            v = 0.0
        if kind == "slow-decay":
            v = scale * 2.0 ** (-0.3 * l)
        return v

    def mean_diff(l):
        return scale * 0.2 * 2.0 ** (-alpha * l) * wobble[l + 10]

    def profile(l, k):
        # low-discrepancy, unique per (l, k): z in (-sqrt(3), sqrt(3)) with unit variance asymptotically
        z = (((k + 1) * 0.6180339887498949 + 0.137 * l) % 1.0 - 0.5) * math.sqrt(12.0)
        base = 50.0 * scale + 1e-7 * k + 1e-3 * l            # identity of the sample in the coarse value
        if l == 0:
            fine = base + sd(0) * z
            return fine, 12345.678      # a coarse value the engine must ignore at level 0
        coarse = base + 0.05 * scale * z
        fine = coarse + mean_diff(l) + sd(l) * z
        return fine, coarse

    def cost(l):
        c = 2.0 ** (1.0 * l) * 1.0731 + 0.3183          # (not a whole number: cost x pass size has a fractional part)
        if kind == "cost-spike" and l == 3:
            c *= 40.0
        return c

    return profile, cost


def _regression(X, y):
    """coefficients of the sample regression of y on the controls X (n, ncv); None when the controls are (nearly) degenerate on this
    sample -- the code has its own guard for that case (entries of the covariance matrix below 1e-12) which the statement does not fix"""
    n = X.shape[0]
    if n < X.shape[1] + 2:
        return None
    Xc = X - X.mean(axis=0)
    S = Xc.T @ Xc / n
    if np.min(np.abs(S)) < 1e-8 * max(1.0, np.abs(S).max()) or np.linalg.cond(S) > 1e6:
        return None
    return np.linalg.solve(S, Xc.T @ (y - y.mean()) / n)


class Tap:
    """record-only wrappers on Statistic.add / extend of the payoff statistics (class level, restored afterwards)"""

    def __init__(self):
        self.adds = []       # (id(stat), row)
        self.values = []     # (id(stat), value written)
        self.problems = []

    def __enter__(self):
        from rpylib.montecarlo.statistic import statistic as ST

        self.ST = ST
        self.orig_add, self.orig_ext = ST.Statistic.add, ST.Statistic.extend
        tap = self

        def add(stat, simulation, variable):
            n = stat.stats.shape[0]
            if not (0 <= simulation < n):
                tap.problems.append(("add-outside-allocated-rows", f"add(row {simulation}) on an array of {n} rows"))
            tap.adds.append((id(stat), int(simulation)))
            tap.values.append((id(stat), np.array(variable, dtype=float, copy=True)))
            return tap.orig_add(stat, simulation, variable)

        ST.Statistic.add = add
        return self

    def __exit__(self, *a):
        self.ST.Statistic.add = self.orig_add


def run_case(case, R):
    import logging

    logging.disable(logging.CRITICAL)
    from rpylib.montecarlo.configuration import ConfigurationMultiLevel, ConvergenceRates
    from rpylib.montecarlo.multilevel.engine import Engine
    from rpylib.product.product import Product, ControlVariates
    from rpylib.product.underlying import Spot
    from rpylib.product.payoff import Forward, Vanilla, PayoffType

    R.evaluation()
    profile, cost = make_profile(case)
    rmse = case["scale"] * 10.0 ** case["rmse_exp"]
    L0, N0 = case["L0"], case["N0"]
    Lmax = L0 + case["Lmax_extra"]
    rates = ConvergenceRates(alpha=case["alpha"], beta=case["beta"], gamma=1.0) if case["rates_given"] else ConvergenceRates()
    cp = ScriptedCoupling(profile, cost, rate=0.02, budget=case.get("budget", 2_000_000))
    dim, ncv = case.get("dim", 1), case.get("ncv", 0)
    sc = case["scale"]
    base = 50.0 * sc
    if dim == 1:
        product = Product(payoff_underlying=Spot(), payoff=Forward(strike=10.0), maturity=1.5, notional=2.0)

        def pay(s):
            return 2.0 * (np.asarray(s, dtype=float)[:, None] - 10.0)
    else:
        strikes = [base + sc * x for x in (-0.03, 0.0, 0.04)[:dim]]
        product = Product(payoff_underlying=Spot(), payoff=Vanilla(strike=list(strikes), payoff_type=PayoffType.CALL), maturity=1.5, notional=2.0)

        def pay(s):
            return 2.0 * np.maximum(np.asarray(s, dtype=float)[:, None] - np.asarray(strikes)[None, :], 0.0)
    df = math.exp(-0.02 * 1.5)
    # controls: a call and a put with kinks inside the distribution of the coarse values; their "market prices" are arbitrary numbers
    cv_specs = [(PayoffType.CALL, base + 0.01 * sc, 0.031 * sc), (PayoffType.PUT, base + 0.02 * sc, 0.017 * sc)][:ncv]
    conf_kw = {}
    if ncv:
        cvp = [Product(payoff_underlying=Spot(), payoff=Vanilla(strike=k, payoff_type=t), maturity=1.5, notional=1.0) for t, k, _ in cv_specs]
        if case.get("cv_prices") == "vector" and dim > 1:
            prices = [np.array([pr * (1 + 0.1 * c) for c in range(dim)]) for _, _, pr in cv_specs]
        else:
            prices = [pr for _, _, pr in cv_specs]
        conf_kw["control_variates"] = ControlVariates(products=cvp, prices=prices)
        pmat = np.array([[np.atleast_1d(np.asarray(p, dtype=float))[c] if np.ndim(p) else float(p) for p in prices] for c in range(dim)])   # (dim, ncv)

        def ctrl(s):
            s = np.asarray(s, dtype=float)
            return np.stack([np.maximum((s - k) if t == PayoffType.CALL else (k - s), 0.0) for t, k, _ in cv_specs], axis=1)      # (n, ncv)
    workers = int(case.get("workers", 1))
    if workers > 1:
        R.hit("multi_process_runs")
    if case.get("script"):
        conf_kw["convergence_criteria"] = scripted_criteria(case)
        R.hit("scripted_allocation_histories")
    conf = ConfigurationMultiLevel(convergence_rates=rates, initial_level=L0, maximum_level=Lmax, initial_mc_paths=N0, seed=7, nb_of_processes=workers, **conf_kw)
    wit = {"case": case, "rmse": rmse}
    eng = Engine(conf, cp)
    kindtag = f"dim{'1' if dim == 1 else 'N'}-cv{'0' if ncv == 0 else 'N'}"
    base_events = 0
    if case["seed"] % 4 == 1 and workers == 1 and case["variant"] == "adaptive" and not case.get("script"):
        # the engine object has priced before, with a tighter target (more samples and possibly more levels than the run judged below)
        try:
            eng.price(product, rmse * 0.45)
        except BudgetExceeded:
            R.skip("sample-budget-exceeded")
            return
        except Exception as exc:  # noqa: BLE001
            R.violation(f"engine-raises-when-priced-again-{kindtag}", f"multilevel Engine raises {type(exc).__name__}: {exc}", wit)
            return
        R.hit("runs_on_an_engine_that_priced_before")
        base_events = len(cp.log.events)
        cp.budget += cp.counters.total()
    with Tap() as tap:
        try:
            st = eng.price(product, rmse) if case["variant"] == "adaptive" else eng.price_with_constant_mc_paths_and_level(product)
        except BudgetExceeded:
            R.skip("sample-budget-exceeded")
            return
        except Exception as exc:  # noqa: BLE001
            R.violation(f"engine-raises-{case['variant']}-{kindtag}", f"multilevel Engine raises {type(exc).__name__}: {exc} (payoff dimension {dim}, {ncv} control variate(s))", wit)
            return
    R.hit("runs_adaptive" if case["variant"] == "adaptive" else "runs_fixed_level")
    R.hit("add_events", len(tap.adds))
    if dim > 1:
        R.hit("vector_payoff_runs")
    if ncv:
        R.hit("control_variate_runs")
    for key, msg in tap.problems[:1]:
        R.violation(key, msg, wit)
    # ---- reference model from the event log ---------------------------------------------------------------------------------------
    by_level = {}
    passes = []           # sizes of the consecutive blocks of samples per level, in order
    last = None
    events = cp.log.events[base_events:]
    if workers > 1:
        # the samples are simulated in worker processes (their log stays there): the reference model is fed by the values handed to the
        # payoff statistics in the parent process (scalar Forward payoff: the terminal values are recovered from the discounted payoff)
        level_of = {id(st.mc_statistics[l]._payoff_statistics): l for l in range(len(st.mc_statistics))}
        events = []
        for sid, val in tap.values:
            if sid in level_of:
                v = np.asarray(val, dtype=float).reshape(-1)
                l = level_of[sid]
                events.append(("sample", l, len(events), v[0] / (2.0 * df) + 10.0, (v[1] / (2.0 * df) + 10.0) if l > 0 else 12345.678))
    for e in events:
        if e[0] == "sample":
            _, l, k, fine, coarse = e
            by_level.setdefault(l, []).append((k, fine, coarse))
            if last is not None and last[0] == l:
                last[1] += 1
            else:
                last = [l, 1]
                passes.append(last)
    nlev = len(st.mc_statistics)
    res = st.mlmc_results
    Nl = np.asarray(res.Nl, dtype=float)
    n_late = max(0, nlev - 1 - L0) if case["variant"] == "adaptive" else 0
    if n_late:
        R.hit("levels_added_late", n_late)
    blocks_per_level = {}
    for l, sz in passes:
        blocks_per_level[l] = blocks_per_level.get(l, 0) + 1
    if max(blocks_per_level.values(), default=1) >= 2:
        R.hit("multi_pass_runs")
    if len(Nl) != nlev or set(by_level) - set(range(nlev)):
        R.violation("levels-mismatch", f"{nlev} statistics levels, Nl has {len(Nl)} entries, samples were logged at levels {sorted(by_level)}", wit)
        return
    price_raw_ref, price_ref, price_ok = 0.0, 0.0, True
    for l in range(nlev):
        logged = by_level.get(l, [])
        n_sim = len(logged)
        fvals = np.array([f for _, f, _ in logged], dtype=float)
        cvals = np.array([c for _, _, c in logged], dtype=float)
        fine_ref = df * pay(fvals) if n_sim else np.zeros((0, dim))                       # (n, dim)
        coarse_ref = (df * pay(cvals) if l > 0 else np.zeros((n_sim, dim))) if n_sim else np.zeros((0, dim))
        raw = np.asarray(st.mc_statistics[l]._payoff_statistics.stats, dtype=float)       # (rows, dim, 2)
        fine_got, coarse_got = raw[:, :, 0], raw[:, :, 1]
        R.hit("rows_checked", len(fine_got))
        late_tag = "level-added-late" if (case["variant"] == "adaptive" and l > L0) else "initial-level"
        if int(round(Nl[l])) != n_sim:
            R.violation(f"Nl-not-number-of-simulated-samples-{late_tag}", f"level {l}: Nl = {Nl[l]!r} but {n_sim} samples were simulated at that level", wit)
        rows_ok = True
        if len(fine_got) != n_sim:
            rows_ok = False
            zero_rows = int(np.sum(np.all(fine_got == 0.0, axis=1) & np.all(coarse_got == 0.0, axis=1)))
            R.violation(f"stored-rows-not-simulated-samples-{late_tag}", f"level {l}: {len(fine_got)} stored rows for {n_sim} simulated samples "
                        f"({zero_rows} all-zero placeholder row(s); first row {[fine_got[0].tolist(), coarse_got[0].tolist()] if len(fine_got) else None})", wit)
        elif n_sim:
            # single process: same order
            tol_rows = 1e-12 * (np.abs(fine_ref).max() + 1)
            if not (np.allclose(fine_got, fine_ref, rtol=1e-12, atol=tol_rows) and np.allclose(coarse_got, coarse_ref, rtol=1e-12, atol=tol_rows)):
                if np.allclose(np.sort(fine_got, axis=0), np.sort(fine_ref, axis=0), rtol=1e-12, atol=tol_rows) and \
                        np.allclose(np.sort(coarse_got, axis=0), np.sort(coarse_ref, axis=0), rtol=1e-12, atol=tol_rows):
                    pass      # same multiset in another order: allowed by the statement
                else:
                    rows_ok = False
                    comp = int(np.argmax(np.abs(fine_got - fine_ref).max(axis=0) + np.abs(coarse_got - coarse_ref).max(axis=0)))
                    R.violation(f"stored-rows-differ-from-simulated-samples-{late_tag}-{kindtag}", f"level {l}: the stored (fine, coarse) rows are not the simulated "
                                f"samples (dropped, duplicated, overwritten or mis-shaped; payoff component {comp} of {dim})", wit)
        if l == 0 and np.any(coarse_got != 0.0):
            R.violation("coarse-payoff-not-zero-at-level-0", f"level 0 coarse payoffs: {coarse_got[:3].tolist()}", wit)
        if not n_sim:
            continue
        price_raw_ref += float((fine_ref[:, 0] - coarse_ref[:, 0]).mean())
        # ---- series the results are computed from: raw, or regression-adjusted with the controls -------------------------------------
        a_fine, a_coarse = fine_ref[:, 0], coarse_ref[:, 0]
        adj_known = True
        if ncv:
            Xf = df * ctrl(fvals)
            Xc = df * ctrl(cvals) if l > 0 else np.zeros_like(Xf)
            cvs = np.asarray(st.mc_statistics[l]._control_variates_statistics.stats, dtype=float)
            R.hit("control_rows_checked", cvs.shape[0])
            if cvs.shape[0] != n_sim:
                R.violation(f"stored-control-rows-not-simulated-samples-{late_tag}", f"level {l}: {cvs.shape[0]} stored control-variate rows for {n_sim} simulated samples", wit)
                adj_known = False
            else:
                got_f = cvs[..., 0] if l > 0 else cvs                # (n, ncv, dim)
                got_c = cvs[..., 1] if l > 0 else None
                okc = np.allclose(got_f, Xf[:, :, None] * np.ones(dim), rtol=1e-12, atol=1e-12 * (base + 1))
                if got_c is not None:
                    okc = okc and np.allclose(got_c, Xc[:, :, None] * np.ones(dim), rtol=1e-12, atol=1e-12 * (base + 1))
                if not okc:
                    R.violation(f"stored-control-rows-differ-from-simulated-samples-{late_tag}", f"level {l}: the stored control-variate values are not those of the simulated samples", wit)
                    adj_known = False
            adj_got = np.asarray(st._get_payoff_statistics(level=l).stats, dtype=float)
            series = []
            for which, (Y, X) in enumerate(((fine_ref, Xf), (coarse_ref, Xc))):
                out = np.empty_like(Y)
                for c in range(dim):
                    b = _regression(X, Y[:, c])
                    if b is None:
                        adj_known = False
                        out[:, c] = np.nan
                    else:
                        out[:, c] = Y[:, c] - (X - pmat[c][None, :]) @ b
                series.append(out)
            if adj_known and rows_ok and adj_got.shape[0] == n_sim:
                R.hit("adjusted_series_checks")
                tolA = 1e-7 * (np.abs(fine_ref).max() + np.abs(series[0]).max() + 1)
                if not (np.allclose(adj_got[:, :, 0], series[0], rtol=0, atol=tolA) and np.allclose(adj_got[:, :, 1], series[1], rtol=0, atol=tolA)):
                    R.violation(f"control-adjusted-samples-not-from-simulated-samples-{late_tag}-{kindtag}", f"level {l}: the control-variate adjusted series differs from "
                                f"Y - b*(X - price) recomputed on the {n_sim} simulated samples (max deviation "
                                f"{float(max(np.abs(adj_got[:, :, 0] - series[0]).max(), np.abs(adj_got[:, :, 1] - series[1]).max()))!r})", wit)
            elif not adj_known:
                R.skip("degenerate-controls-at-a-level")
            a_fine, a_coarse = series[0][:, 0], series[1][:, 0]
        if not adj_known:
            price_ok = False
            continue
        d_ref = a_fine - a_coarse
        price_ref += float(d_ref.mean())
        amax = max(np.abs(a_fine).max(), 1e-300)
        chk = [("ml", float(res.ml[l]), abs(d_ref.mean())), ("vl", float(res.vl[l]), max(0.0, d_ref.var())),
               ("mean_level_l", float(res.mean_level_l[l]), a_fine.mean()), ("var_level_l", float(res.var_level_l[l]), a_fine.var()),
               ("cl", float(res.cl[l]), cost(l))]
        for name, got, want in chk:
            scale = abs(want) + (amax ** 2 if name.startswith("v") else amax) * 1e-6 + 1e-12
            if not (abs(got - want) <= 1e-7 * scale + (1e-9 * amax ** 2 if name.startswith("v") else 0.0)):
                R.violation(f"result-{name}-not-from-simulated-samples-{late_tag}", f"level {l}: {name} = {got!r}, recomputed from the "
                            f"{n_sim} simulated samples: {want!r}", wit)
        if d_ref.var() >= 1.0 and n_sim >= 4:
            m = d_ref.mean()
            kurt = np.mean((d_ref - m) ** 4) / d_ref.var() ** 2
            if not (abs(float(res.kurtosis[l]) - kurt) <= 1e-6 * (1 + kurt)):
                R.violation("result-kurtosis", f"level {l}: kurtosis {float(res.kurtosis[l])!r}, from the samples {kurt!r}", wit)
    got_raw = float(st.price(no_control_variates=True))
    R.hit("price_checks")
    if not (abs(got_raw - price_raw_ref) <= 1e-9 * (abs(price_raw_ref) + sc)):
        R.violation(f"price-not-sum-of-level-means-{kindtag}", f"price(no control variates) = {got_raw!r}, sum over levels of mean(fine - coarse) over the simulated samples = {price_raw_ref!r}", wit)
    got_price = float(st.price())
    if price_ok and not (abs(got_price - price_ref) <= 1e-7 * (abs(price_ref) + sc)):
        R.violation(f"price-not-sum-of-level-means-{kindtag}", f"price() = {got_price!r}, sum over levels of mean(fine - coarse) of the {'control-adjusted ' if ncv else ''}"
                    f"simulated samples = {price_ref!r}", wit)
    tot_cost = sum(cost(l) * len(by_level.get(l, [])) for l in range(nlev))
    if not (abs(float(res.cost) - tot_cost) <= 1e-9 * tot_cost):
        R.violation("total-cost", f"cost = {float(res.cost)!r}, sum of cost x simulated samples = {tot_cost!r}", wit)
    # online: every row written at most once per statistic object
    seen = {}
    for sid, row in tap.adds:
        seen[(sid, row)] = seen.get((sid, row), 0) + 1
    dup = [k for k, c in seen.items() if c > 1]
    if dup:
        R.violation("row-written-twice", f"{len(dup)} statistic rows were written more than once (e.g. row {dup[0][1]})", wit)
    sig = (nlev, tuple(sz for _, sz in passes)[:12], n_late, dim, ncv)
    if max(blocks_per_level.values(), default=1) >= 2 or n_late:
        R.nontrivial_case(sig)
    if case["seed"] % 25 == 0:
        R.sample({"case": case, "levels": nlev, "Nl": Nl.tolist(), "passes(level,size)": [[l, s] for l, s in passes][:14], "price": got_price})
