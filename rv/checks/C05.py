"""C05 -- multilevel estimator = sum of per-level means over exactly the simulated samples.

Monitor: the real multilevel Engine (adaptive price() and the fixed-level variant) with real MLMCStatistics / MLMCPath /
Product, driven by a scripted coupling process whose every sample has a unique id and unique (fine, coarse) values and is
logged when simulated; record-only wrappers on Statistic.add / Statistic.extend (row written, allocated rows).
Oracle: a sequential reference model fed by the event log (numpy on the logged samples).
"""
from __future__ import annotations

import math

import numpy as np

from ..scripted_process import ScriptedCoupling, BudgetExceeded

ID = "C05"
RULE = ("case = (profile of per-level means / standard deviations / costs, rmse, initial level, N0, maximum level, variant in "
        "{adaptive, fixed-level}); after the run: Nl = number of samples logged per level, stored rows = the logged (fine, coarse) "
        "pairs (each once, no placeholder row), price = sum of per-level means of fine - coarse over the log, coarse = 0 at level 0, "
        "ml / vl / mean_level_l / var_level_l / cl / cost / kurtosis recomputed from the log; online: every add(level, i) writes a "
        "fresh row below the allocated size; non-trivial = run with >= 2 passes or >= 1 level added late; distinct = distinct "
        "history signature (levels, passes, per-pass sizes)")
ASSUMPTIONS = ["the scripted coupling process stands for any coupling process (the engine only sees the interface)",
               "kurtosis is compared on profiles whose per-level sample variance is >= 1 (below, the statement does not fix the formula)",
               "sample budget 2e6 per run: beyond it the run is inconclusive, not a violation"]
REQUIRED_COUNTERS = ["runs_adaptive", "runs_fixed_level", "rows_checked", "levels_added_late", "multi_pass_runs", "add_events"]
MIN_NONTRIVIAL = {"quick": 40, "thorough": 500}
SHARD_TIMEOUT = {"quick": 900, "thorough": 7200}


def gen_cases(tier, seed):
    rng = np.random.default_rng(seed + 500)
    n = 96 if tier == "quick" else 1600
    cases = []
    for i in range(n):
        kind = ["geometric", "plateau", "zero-variance-level", "cost-spike", "slow-decay"][i % 5]
        cases.append({"seed": int(rng.integers(2**31)), "profile": kind, "variant": "fixed" if i % 6 == 5 else "adaptive",
                      "rmse_exp": float(rng.uniform(-2.2 if tier == "thorough" else -1.5, -0.3)), "budget": 2_000_000 if tier == "thorough" else 150_000, "L0": int(rng.choice([2, 2, 3, 4])), "N0": int(rng.choice([2, 5, 20, 100, 200])),
                      "Lmax_extra": int(rng.integers(0, 7)), "beta": float(rng.uniform(0.6, 2.2)), "alpha": float(rng.uniform(0.5, 1.5)),
                      "rates_given": bool(i % 3 != 0), "scale": float(rng.choice([1.0, 30.0]))})
    return cases


def make_profile(case):
    """deterministic, unique values: sample k of level l -> (fine, coarse)"""
    kind, beta, alpha, scale = case["profile"], case["beta"], case["alpha"], case["scale"]
    rng0 = np.random.default_rng(case["seed"] + 11)
    wobble = rng0.uniform(0.7, 1.3, size=40)

    def sd(l):
        v = scale * 2.0 ** (-beta * l / 2) * wobble[l]
        if kind == "plateau" and 2 <= l <= 3:
            v = scale * 2.0 ** (-beta)
        if kind == "zero-variance-level" and l == 2:
            v = 0.0
        if kind == "slow-decay":
            v = scale * 2.0 ** (-0.3 * l)
        return v

    def mean_diff(l):
        return scale * 0.2 * 2.0 ** (-alpha * l) * wobble[l + 10]

    def profile(l, k):
        # low-discrepancy, unique per (l, k): z in (-sqrt(3), sqrt(3)) with unit variance asymptotically
        z = (((k + 1) * 0.6180339887498949 + 0.137 * l) % 1.0 - 0.5) * math.sqrt(12.0)
        base = 50.0 * scale + 1e-7 * k + 1e-3 * l            # identity of the sample in the coarse value
        if l == 0:
            fine = base + sd(0) * z
            return fine, 12345.678      # a coarse value the engine must ignore at level 0
        coarse = base + 0.05 * scale * z
        fine = coarse + mean_diff(l) + sd(l) * z
        return fine, coarse

    def cost(l):
        c = 2.0 ** (1.0 * l)
        if kind == "cost-spike" and l == 3:
            c *= 40.0
        return c

    return profile, cost


class Tap:
    """record-only wrappers on Statistic.add / extend of the payoff statistics (class level, restored afterwards)"""

    def __init__(self):
        self.adds = []       # (id(stat), row)
        self.problems = []

    def __enter__(self):
        from rpylib.montecarlo.statistic import statistic as ST

        self.ST = ST
        self.orig_add, self.orig_ext = ST.Statistic.add, ST.Statistic.extend
        tap = self

        def add(stat, simulation, variable):
            n = stat.stats.shape[0]
            if not (0 <= simulation < n):
                tap.problems.append(("add-outside-allocated-rows", f"add(row {simulation}) on an array of {n} rows"))
            tap.adds.append((id(stat), int(simulation)))
            return tap.orig_add(stat, simulation, variable)

        ST.Statistic.add = add
        return self

    def __exit__(self, *a):
        self.ST.Statistic.add = self.orig_add


def run_case(case, R):
    import logging

    logging.disable(logging.CRITICAL)
    from rpylib.montecarlo.configuration import ConfigurationMultiLevel, ConvergenceRates
    from rpylib.montecarlo.multilevel.engine import Engine
    from rpylib.product.product import Product
    from rpylib.product.underlying import Spot
    from rpylib.product.payoff import Forward

    R.evaluation()
    profile, cost = make_profile(case)
    rmse = case["scale"] * 10.0 ** case["rmse_exp"]
    L0, N0 = case["L0"], case["N0"]
    Lmax = L0 + case["Lmax_extra"]
    rates = ConvergenceRates(alpha=case["alpha"], beta=case["beta"], gamma=1.0) if case["rates_given"] else ConvergenceRates()
    cp = ScriptedCoupling(profile, cost, rate=0.02, budget=case.get("budget", 2_000_000))
    conf = ConfigurationMultiLevel(convergence_rates=rates, initial_level=L0, maximum_level=Lmax, initial_mc_paths=N0, seed=7, nb_of_processes=1)
    product = Product(payoff_underlying=Spot(), payoff=Forward(strike=10.0), maturity=1.5, notional=2.0)
    df = math.exp(-0.02 * 1.5)
    wit = {"case": case, "rmse": rmse}
    eng = Engine(conf, cp)
    with Tap() as tap:
        try:
            st = eng.price(product, rmse) if case["variant"] == "adaptive" else eng.price_with_constant_mc_paths_and_level(product)
        except BudgetExceeded:
            R.skip("sample-budget-exceeded")
            return
        except Exception as exc:  # noqa: BLE001
            R.violation(f"engine-raises-{case['variant']}", f"multilevel Engine raises {type(exc).__name__}: {exc}", wit)
            return
    R.hit("runs_adaptive" if case["variant"] == "adaptive" else "runs_fixed_level")
    R.hit("add_events", len(tap.adds))
    for key, msg in tap.problems[:1]:
        R.violation(key, msg, wit)
    # ---- reference model from the event log ---------------------------------------------------------------------------------------
    by_level = {}
    passes = []           # sizes of the consecutive blocks of samples per level, in order
    last = None
    for e in cp.log.events:
        if e[0] == "sample":
            _, l, k, fine, coarse = e
            by_level.setdefault(l, []).append((k, fine, coarse))
            if last is not None and last[0] == l:
                last[1] += 1
            else:
                last = [l, 1]
                passes.append(last)
    nlev = len(st.mc_statistics)
    res = st.mlmc_results
    Nl = np.asarray(res.Nl, dtype=float)
    late = [e for e in cp.log.events if e[0] == "next_level"]
    n_late = max(0, nlev - 1 - L0) if case["variant"] == "adaptive" else 0
    if n_late:
        R.hit("levels_added_late", n_late)
    blocks_per_level = {}
    for l, sz in passes:
        blocks_per_level[l] = blocks_per_level.get(l, 0) + 1
    if max(blocks_per_level.values(), default=1) >= 2:
        R.hit("multi_pass_runs")
    if len(Nl) != nlev or set(by_level) - set(range(nlev)):
        R.violation("levels-mismatch", f"{nlev} statistics levels, Nl has {len(Nl)} entries, samples were logged at levels {sorted(by_level)}", wit)
        return
    price_ref = 0.0
    for l in range(nlev):
        logged = by_level.get(l, [])
        n_sim = len(logged)
        fine_ref = np.array([df * 2.0 * (f - 10.0) for _, f, _ in logged])
        coarse_ref = np.array([0.0 if l == 0 else df * 2.0 * (c - 10.0) for _, _, c in logged])
        fine_got = np.asarray(st.simulation_payoff_with_fine_process(l), dtype=float)
        coarse_got = np.asarray(st.simulation_payoff_with_coarse_process(l), dtype=float)
        R.hit("rows_checked", len(fine_got))
        late_tag = "level-added-late" if (case["variant"] == "adaptive" and l > L0) else "initial-level"
        if int(round(Nl[l])) != n_sim:
            R.violation(f"Nl-not-number-of-simulated-samples-{late_tag}", f"level {l}: Nl = {Nl[l]!r} but {n_sim} samples were simulated at that level", wit)
        if len(fine_got) != n_sim:
            zero_rows = int(np.sum((fine_got == 0.0) & (coarse_got == 0.0)))
            R.violation(f"stored-rows-not-simulated-samples-{late_tag}", f"level {l}: {len(fine_got)} stored rows for {n_sim} simulated samples "
                        f"({zero_rows} all-zero placeholder row(s); first row {[float(fine_got[0]), float(coarse_got[0])] if len(fine_got) else None})", wit)
        else:
            # same multiset, and (single process) same order
            if not (np.allclose(np.sort(fine_got), np.sort(fine_ref), rtol=1e-12, atol=1e-12) and
                    np.allclose(np.sort(coarse_got), np.sort(coarse_ref), rtol=1e-12, atol=1e-12)):
                R.violation(f"stored-rows-differ-from-simulated-samples-{late_tag}", f"level {l}: the stored (fine, coarse) rows are not the simulated "
                            "samples (dropped, duplicated or overwritten)", wit)
        if l == 0 and np.any(coarse_got != 0.0):
            R.violation("coarse-payoff-not-zero-at-level-0", f"level 0 coarse payoffs: {coarse_got[:3].tolist()}", wit)
        if n_sim:
            d_ref = fine_ref - coarse_ref
            price_ref += d_ref.mean()
            tol = 1e-9 * (abs(fine_ref).max() + 1)
            chk = [("ml", float(res.ml[l]), abs(d_ref.mean())), ("vl", float(res.vl[l]), max(0.0, d_ref.var())),
                   ("mean_level_l", float(res.mean_level_l[l]), fine_ref.mean()), ("var_level_l", float(res.var_level_l[l]), fine_ref.var()),
                   ("cl", float(res.cl[l]), cost(l))]
            for name, got, want in chk:
                scale = abs(want) + (abs(fine_ref).max() ** 2 if name.startswith("v") else abs(fine_ref).max()) * 1e-6 + 1e-12
                if abs(got - want) > 1e-7 * scale + (1e-9 * abs(fine_ref).max() ** 2 if name.startswith("v") else 0.0):
                    R.violation(f"result-{name}-not-from-simulated-samples-{late_tag}", f"level {l}: {name} = {got!r}, recomputed from the "
                                f"{n_sim} simulated samples: {want!r}", wit)
            if d_ref.var() >= 1.0 and n_sim >= 4:
                m = d_ref.mean()
                kurt = np.mean((d_ref - m) ** 4) / d_ref.var() ** 2
                if abs(float(res.kurtosis[l]) - kurt) > 1e-6 * (1 + kurt):
                    R.violation("result-kurtosis", f"level {l}: kurtosis {float(res.kurtosis[l])!r}, from the samples {kurt!r}", wit)
    got_price = float(st.price())
    if abs(got_price - price_ref) > 1e-9 * (abs(price_ref) + case["scale"]):
        R.violation("price-not-sum-of-level-means", f"price() = {got_price!r}, sum over levels of mean(fine - coarse) over the simulated samples = {price_ref!r}", wit)
    tot_cost = sum(cost(l) * len(by_level.get(l, [])) for l in range(nlev))
    if abs(float(res.cost) - tot_cost) > 1e-9 * tot_cost:
        R.violation("total-cost", f"cost = {float(res.cost)!r}, sum of cost x simulated samples = {tot_cost!r}", wit)
    # online: every row written at most once per statistic object
    seen = {}
    for sid, row in tap.adds:
        seen[(sid, row)] = seen.get((sid, row), 0) + 1
    dup = [k for k, c in seen.items() if c > 1]
    if dup:
        R.violation("row-written-twice", f"{len(dup)} statistic rows were written more than once (e.g. row {dup[0][1]})", wit)
    sig = (nlev, tuple(sz for _, sz in passes)[:12], n_late)
    if max(blocks_per_level.values(), default=1) >= 2 or n_late:
        R.nontrivial_case(sig)
    if case["seed"] % 25 == 0:
        R.sample({"case": case, "levels": nlev, "Nl": Nl.tolist(), "passes(level,size)": [[l, s] for l, s in passes][:14], "price": got_price})
