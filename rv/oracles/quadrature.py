"""Quadrature oracle: integrals of x^n * nu(x) computed from the model's own density ``nu(x)`` only
(the measure's ``__call__``), never from its closed-form ``integrate*`` methods.

Returns ``(value, error_estimate)``; the caller compares with
``|observed - value| <= rtol*|value| + atol + 10*error_estimate`` and treats a too-large estimate as
oracle-inconclusive.
"""
from __future__ import annotations

import math
import warnings

import numpy as np
from scipy.integrate import quad

INF = math.inf


def _quad(g, lo, hi, limit=400):
    with warnings.catch_warnings():
        warnings.simplefilter("ignore")
        v, e = quad(g, lo, hi, limit=limit, epsabs=1e-300, epsrel=1e-13)
    return v, abs(e)


S_MAX = 230.0  # exp(-230) = 1e-100: below that the densities overflow; the neglected part enters the error


def _half_line(f, lo, hi, n, breaks, decay=None):
    """integral over [lo, hi] subset of [0, inf] of x^n f(x); f evaluated at positive floats only.
    ``decay`` = n - activity index (> 0) when known: used to bound the part of [0, 1e-100] that is not integrated."""
    if hi <= lo:
        return 0.0, 0.0
    total, err = 0.0, 0.0

    def g(x):
        return (x**n) * f(x)

    cuts = sorted({c for c in ([1e-6, 1e-4, 1e-3, 1e-2, 0.03, 0.1, 0.3, 1.0, 3.0, 10.0, 30.0] + list(breaks)) if lo < c < hi})
    pts = [lo] + cuts + [hi]
    for u, v in zip(pts[:-1], pts[1:]):
        if u == 0.0:
            # x = exp(-s): integrand exp(-s (n+1)) f(exp(-s)), exponential decay when the integral is finite
            def gs(s):
                x = math.exp(-s)
                if x == 0.0:
                    return 0.0
                return (x ** (n + 1)) * f(x)

            val, e = _quad(gs, -math.log(v), S_MAX)
            tail = abs(gs(S_MAX))
            if tail > 0.0:
                if not decay or decay <= 0:
                    e = INF
                else:
                    e += tail / decay
        elif v == INF:
            val, e = _quad(g, u, INF)
        else:
            val, e = _quad(g, u, v)
        total += val
        err += e
    return total, err


def integrate_xn(density, a, b, n=0, breakpoints=(), alpha=-1.0):
    """integral over [a, b] of x^n density(x) dx, splitting at 0 and at the breakpoints.
    ``alpha``: activity index of the density at 0 (density ~ |x|^(-1-alpha)); -1 = bounded density."""
    if a > b:
        raise ValueError("a > b")
    if a == b:
        return 0.0, 0.0

    def fpos(x):
        return float(density(float(x)))

    def fneg(x):
        return float(density(-float(x)))

    total, err = 0.0, 0.0
    decay = None if alpha is None else n - alpha
    if b > 0:
        lo = max(a, 0.0)
        v, e = _half_line(fpos, lo, b, n, [c for c in breakpoints if c > 0], decay)
        total += v
        err += e
    if a < 0:
        hi = min(b, 0.0)
        # x -> -x on the negative half-line
        v, e = _half_line(fneg, -hi, -a, n, [-c for c in breakpoints if c < 0], decay)
        total += ((-1) ** n) * v
        err += e
    return total, err


def finite_near_zero(n, alpha):
    """x^n * |x|^(-1-alpha) integrable at 0 iff n - alpha > 0 (alpha = activity index; compound Poisson: -1)."""
    return n - alpha > 0


def close(observed, value, err, rtol, atol):
    if not np.isfinite(observed):
        return False
    return abs(observed - value) <= rtol * abs(value) + atol + 10.0 * err


def integrate_general(g, a, b, breakpoints=(), decay=None):
    """integral over [a, b] of a real integrand g(x) (already including the density), x != 0, split at 0 and at the
    break points; ``decay`` > 0: g(x) = O(|x|^(decay - 1)) near 0 (used for the part of [0, 1e-100] not integrated)."""
    if a >= b:
        return 0.0, 0.0
    total, err = 0.0, 0.0
    if b > 0:
        lo = max(a, 0.0)
        v, e = _half_line(lambda x: g(x), lo, b, 0, [c for c in breakpoints if c > 0], decay)
        total += v
        err += e
    if a < 0:
        hi = min(b, 0.0)
        v, e = _half_line(lambda x: g(-x), -hi, -a, 0, [-c for c in breakpoints if c < 0], decay)
        total += v
        err += e
    return total, err
