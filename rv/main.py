"""CLI driver: ./check <ID> [--tier quick|thorough] [--seed N] [--replay FILE] [--shards N]

Runs the check module ``rv.checks.<ID>`` over its generated cases, sharded over fresh worker
subprocesses (one fresh interpreter per shard => rpylib is re-imported from the current tree),
merges what the monitors observed, applies the known-findings file, writes the evidence file and
prints the verdict lines.

Exit codes: 0 held on what was observed (or only listed known findings seen); 1 violation;
2 inconclusive (monitor not reached, watchdog, harness error) -- never folded into 0 or 1.
"""
from __future__ import annotations

import argparse
import hashlib
import importlib
import json
import os
import shutil
import subprocess
import sys
import time
import traceback

from . import bootstrap
from .recorder import Recorder, jsonable

VERIF = bootstrap.VERIF


def load_known(prop: str):
    path = os.path.join(VERIF, "known_findings.json")
    if not os.path.exists(path):
        return {}, {}
    with open(path) as fh:
        data = json.load(fh)
    known, fixed = {}, {}
    for e in data.get("findings", []):
        if e.get("property") != prop:
            continue
        if e.get("status") == "known":
            known[e["key"]] = e
        elif e.get("status") == "fixed":
            fixed[e["key"]] = e
    return known, fixed


def run_cases(mod, cases, R: Recorder):
    ctx = mod.setup(R) if hasattr(mod, "setup") else None
    for case in cases:
        R.current_case = case
        t_case = time.time()
        try:
            if ctx is not None:
                mod.run_case(case, R, ctx)
            else:
                mod.run_case(case, R)
        except Exception as exc:  # harness error or un-judged library exception: never a verdict
            R.error(f"{type(exc).__name__}: {exc}", traceback.format_exc())
        R.note_time(time.time() - t_case)
    R.current_case = None
    if hasattr(mod, "teardown"):
        mod.teardown(R, ctx)


def shard_main(prop, cases_file, out_file):
    mod = importlib.import_module(f"rv.checks.{prop}")
    if getattr(mod, "NEEDS_DEPS", False):
        bootstrap.ensure_deps()
    with open(cases_file) as fh:
        cases = json.load(fh)
    R = Recorder(prop)
    run_cases(mod, cases, R)
    with open(out_file, "w") as fh:
        json.dump(R.dump(), fh)


def main(argv=None):
    ap = argparse.ArgumentParser(prog="check")
    ap.add_argument("prop")
    ap.add_argument("--tier", default=os.environ.get("VERIF_TIER") or "quick", choices=["quick", "thorough"])
    ap.add_argument("--seed", type=int, default=None)
    ap.add_argument("--replay", default=None)
    ap.add_argument("--shards", type=int, default=None)
    ap.add_argument("--shard", nargs=2, default=None, help=argparse.SUPPRESS)
    ap.add_argument("--inline", action="store_true", help="run in this process (debugging)")
    args = ap.parse_args(argv)
    prop = args.prop
    if args.shard:
        shard_main(prop, *args.shard)
        return 0

    seed = args.seed if args.seed is not None else int(os.environ.get("VERIF_SEED") or 0)
    tier = args.tier
    t0 = time.time()
    mod = importlib.import_module(f"rv.checks.{prop}")
    if getattr(mod, "NEEDS_DEPS", False):
        bootstrap.ensure_deps()
    R = Recorder(prop)
    inconclusive: list[str] = []

    if args.replay:
        with open(args.replay) as fh:
            rep = json.load(fh)
        cases = [rep["case"]]
        R.first_case = cases[0]
        run_cases(mod, cases, R)
    else:
        cases = mod.gen_cases(tier, seed)
        R.first_case = cases[0] if cases else None
        if tier == "thorough":
            # several rounds of the generators (different seeds); identical cases (the fixed stratified part) are kept once
            seen = {json.dumps(c, sort_keys=True, default=str) for c in cases}
            for k in range(1, int(getattr(mod, "THOROUGH_ROUNDS", 1))):
                for c in mod.gen_cases(tier, seed + 7919 * k):
                    key = json.dumps(c, sort_keys=True, default=str)
                    if key not in seen:
                        seen.add(key)
                        cases.append(c)
        nshards = args.shards or int(os.environ.get("VERIF_SHARDS") or 0) or min(16, os.cpu_count() or 4)
        nshards = max(1, min(nshards, len(cases)))
        if args.inline or nshards == 1 and getattr(mod, "INLINE_OK", False):
            run_cases(mod, cases, R)
        else:
            scratch = os.path.join(VERIF, ".scratch", f"{prop}-{os.getpid()}")
            os.makedirs(scratch, exist_ok=True)
            try:
                procs = []
                for i in range(nshards):
                    cf = os.path.join(scratch, f"cases{i}.json")
                    of = os.path.join(scratch, f"out{i}.json")
                    with open(cf, "w") as fh:
                        json.dump(cases[i::nshards], fh)
                    log = open(os.path.join(scratch, f"log{i}.txt"), "w")
                    p = subprocess.Popen([bootstrap.PYTHON, "-m", "rv.main", prop, "--shard", cf, of],
                                         cwd=VERIF, stdout=log, stderr=subprocess.STDOUT,
                                         env=dict(os.environ, VERIF_TIER=tier, VERIF_SEED=str(seed)))
                    procs.append((p, of, log, i))
                timeout = getattr(mod, "SHARD_TIMEOUT", {"quick": 600, "thorough": 7200})[tier]
                deadline = time.time() + timeout
                for p, of, log, i in procs:
                    try:
                        p.wait(timeout=max(1.0, deadline - time.time()))
                    except subprocess.TimeoutExpired:
                        p.kill()
                        p.wait()
                        inconclusive.append(f"watchdog: shard {i} exceeded {timeout}s")
                    log.close()
                    if os.path.exists(of):
                        with open(of) as fh:
                            R.merge(json.load(fh))
                    else:
                        with open(log.name) as fh:
                            tail = fh.read()[-2000:]
                        inconclusive.append(f"shard {i} produced no result (rc={p.returncode}): {tail}")
            finally:
                shutil.rmtree(scratch, ignore_errors=True)
                try:
                    os.rmdir(os.path.join(VERIF, ".scratch"))
                except OSError:
                    pass

    if hasattr(mod, "finalize"):
        try:
            mod.finalize(R, tier)
        except Exception as exc:  # noqa: BLE001
            R.error(f"finalize: {type(exc).__name__}: {exc}", traceback.format_exc())

    # ---- verdict -------------------------------------------------------------------------------
    known, _fixed = load_known(prop)
    lines = []
    n_viol = 0
    known_seen = {}
    for key, count in sorted(R.violation_keys.items()):
        if key in known:
            known_seen[key] = count
            lines.append(f"KNOWN-FINDING: property={prop} {known[key]['what']} [key={key}; observed {count}x in this run]")
            continue
        n_viol += count
        wit = next((v for v in R.violations if v["key"] == key), None)
        body = {"property": prop, "key": key, "what": wit["what"] if wit else key, "case": wit["case"] if wit else None,
                "witness": wit["witness"] if wit else None, "seed": seed, "tier": tier}
        sha = hashlib.sha1(json.dumps(body, sort_keys=True).encode()).hexdigest()[:12]
        rdir = os.path.join(VERIF, "replays" if bootstrap.REPO == "/repo" else os.path.join(".scratch", "mutant-replays"), prop)
        os.makedirs(rdir, exist_ok=True)
        rpath = os.path.join(rdir, f"{sha}.json")
        with open(rpath, "w") as fh:
            json.dump(body, fh, indent=1)
        lines.append(f"VIOLATION property={prop} replay={rpath}")
        lines.append(f"  mechanism={key} count={count}: {body['what']}")

    for e in R.errors[:5]:
        inconclusive.append("harness/unjudged exception: " + e["what"] + " in case " + json.dumps(e["case"])[:300]
                            + "\n" + e["traceback"])
    if not args.replay:
        for name in getattr(mod, "REQUIRED_COUNTERS", []):
            if R.counters.get(name, 0) == 0:
                inconclusive.append(f"deciding monitor never reached: counter {name} == 0")
        need = getattr(mod, "MIN_NONTRIVIAL", {"quick": 2, "thorough": 2})
        need = need[tier] if isinstance(need, dict) else need
        if len(R.nontrivial) < need:
            inconclusive.append(f"only {len(R.nontrivial)} distinct non-trivial cases observed (< {need})")
        for name in getattr(mod, "REQUIRED_CLASSES", []):
            if R.classes.get(name, 0) == 0:
                inconclusive.append(f"promised class never exercised: {name}")
        if hasattr(mod, "inconclusive_reasons"):
            inconclusive.extend(mod.inconclusive_reasons(R, tier))

    wall = time.time() - t0
    if not args.replay:
        write_evidence(mod, prop, tier, seed, R, wall, n_viol, known_seen, inconclusive)

    for ln in lines:
        print(ln)
    if n_viol:
        if R.errors:
            print(f"NOTE property={prop}: {len(R.errors)} case(s) also ended in a harness/unjudged exception, e.g. {R.errors[0]['what']}")
        print(f"RESULT property={prop} tier={tier} seed={seed}: VIOLATED ({n_viol} refuting observations, "
              f"{R.evaluations} evaluations, {wall:.1f}s)")
        return 1
    if inconclusive:
        for r in inconclusive:
            print(f"INCONCLUSIVE property={prop} reason={r}")
        return 2
    print(f"RESULT property={prop} tier={tier} seed={seed}: held on what was observed "
          f"({R.evaluations} evaluations, {len(R.nontrivial)} distinct non-trivial, "
          f"{len(known_seen)} known finding(s) seen, {wall:.1f}s)")
    return 0


def write_evidence(mod, prop, tier, seed, R, wall, n_viol, known_seen, inconclusive):
    ev = {
        "property_id": prop,
        "tier": tier,
        "seed": int(seed),
        "level": "exploration",
        "coverage": {
            "evaluations": int(R.evaluations),
            "distinct_nontrivial": len(R.nontrivial),
            "rule": getattr(mod, "RULE", ""),
            # (a run in which no case met the check's own sampling rule still shows what an evaluated case looks like)
            "samples": R.samples or [{"note": "no case met the sampling rule of this check in this run; the first case evaluated", "case": jsonable(R.first_case)}],
            "monitor_hits": dict(sorted(R.counters.items())),
            "classes": dict(sorted(R.classes.items())),
            "oracle_skips": dict(sorted(R.skips.items())),
            "known_findings_seen": known_seen,
            "violation_mechanisms": dict(sorted(R.violation_keys.items())),
            "inconclusive": inconclusive[:10],
            "slowest_cases": R.slowest[:3],
            "tree": bootstrap.repo_identity(),
            "exhaustive": False,
        },
        "assumptions": list(getattr(mod, "ASSUMPTIONS", [])),
        "wall_s": round(wall, 3),
        "violations": int(n_viol),
    }
    # runs against a scratch copy (mutant self-tests, VERIF_REPO set) never touch the committed evidence
    evdir = os.path.join(VERIF, "evidence") if bootstrap.REPO == "/repo" else os.path.join(VERIF, ".scratch", "mutant-evidence")
    os.makedirs(evdir, exist_ok=True)
    path = os.path.join(evdir, f"{prop}.json")
    tmp = path + f".tmp{os.getpid()}"
    with open(tmp, "w") as fh:
        json.dump(jsonable(ev), fh, indent=1, sort_keys=True)
    os.replace(tmp, path)


if __name__ == "__main__":
    sys.exit(main())
