"""Per-shard recorder of what the monitors observed; JSON-serialisable so shards can be merged."""
from __future__ import annotations

import hashlib
import json
import math
from collections import Counter

import numpy as np


def jsonable(x, depth=0):
    """Best-effort conversion of harness values to JSON (numpy, complex, inf, tuples, sets)."""
    if depth > 12:
        return repr(x)
    if x is None or isinstance(x, (bool, str)):
        return x
    if isinstance(x, (int, np.integer)):
        return int(x)
    if isinstance(x, (float, np.floating)):
        x = float(x)
        if math.isnan(x):
            return "nan"
        if math.isinf(x):
            return "inf" if x > 0 else "-inf"
        return x
    if isinstance(x, (complex, np.complexfloating)):
        return {"re": jsonable(x.real), "im": jsonable(x.imag)}
    if isinstance(x, np.ndarray):
        if x.size > 400:
            return {"shape": list(x.shape), "head": jsonable(x.ravel()[:50].tolist(), depth + 1),
                    "sha": hashlib.sha1(np.ascontiguousarray(x).tobytes()).hexdigest()[:12]}
        return jsonable(x.tolist(), depth + 1)
    if isinstance(x, dict):
        return {str(k): jsonable(v, depth + 1) for k, v in x.items()}
    if isinstance(x, (list, tuple, set, frozenset)):
        return [jsonable(v, depth + 1) for v in x]
    return repr(x)


def from_json_float(x):
    if x == "inf":
        return math.inf
    if x == "-inf":
        return -math.inf
    if x == "nan":
        return math.nan
    return x


class Recorder:
    """Collects, for one shard of cases: evaluations, distinct non-trivial signatures, hook/monitor
    hit counters, class counters, oracle skips, violations (with mechanism key) and a few samples."""

    MAX_SAMPLES = 6
    MAX_VIOLATIONS_KEPT = 40

    def __init__(self, prop: str):
        self.prop = prop
        self.evaluations = 0
        self.nontrivial: set[str] = set()
        self.counters: Counter = Counter()
        self.classes: Counter = Counter()
        self.skips: Counter = Counter()
        self.violations: list[dict] = []
        self.violation_keys: Counter = Counter()
        self.samples: list = []
        self.errors: list[dict] = []
        self.slowest: list = []
        self.current_case = None
        self.first_case = None

    # -- observations -------------------------------------------------------------------------
    def evaluation(self, n: int = 1):
        self.evaluations += n

    def nontrivial_case(self, *signature):
        """Register one distinct non-trivial case (signature hashed; set semantics)."""
        s = json.dumps(jsonable(signature), sort_keys=True)
        self.nontrivial.add(hashlib.sha1(s.encode()).hexdigest()[:16])

    def hit(self, name: str, n: int = 1):
        self.counters[name] += n

    def klass(self, name: str, n: int = 1):
        self.classes[name] += n

    def skip(self, reason: str, n: int = 1):
        """An oracle-inconclusive comparison (oracle error above budget, outside domain...)."""
        self.skips[reason] += n

    def sample(self, obj):
        if len(self.samples) < self.MAX_SAMPLES:
            self.samples.append(jsonable(obj))

    def violation(self, key: str, what: str, witness=None):
        """A refuting observation.  ``key`` is the mechanism key used by the known-findings file."""
        self.violation_keys[key] += 1
        if sum(1 for v in self.violations if v["key"] == key) < 3 and len(self.violations) < self.MAX_VIOLATIONS_KEPT:
            self.violations.append({"key": key, "what": what, "case": jsonable(self.current_case),
                                    "witness": jsonable(witness)})

    def note_time(self, seconds: float):
        self.slowest.append([round(seconds, 2), jsonable(self.current_case)])
        self.slowest.sort(key=lambda x: -x[0])
        del self.slowest[3:]

    def error(self, what: str, tb: str):
        self.errors.append({"what": what, "case": jsonable(self.current_case), "traceback": tb[-3000:]})

    # -- (de)serialisation --------------------------------------------------------------------
    def dump(self) -> dict:
        return {
            "evaluations": self.evaluations,
            "nontrivial": sorted(self.nontrivial),
            "counters": dict(self.counters),
            "classes": dict(self.classes),
            "skips": dict(self.skips),
            "violations": self.violations,
            "violation_keys": dict(self.violation_keys),
            "samples": self.samples,
            "errors": self.errors,
            "slowest": self.slowest,
        }

    def merge(self, d: dict):
        self.evaluations += d["evaluations"]
        self.nontrivial.update(d["nontrivial"])
        self.counters.update(d["counters"])
        self.classes.update(d["classes"])
        self.skips.update(d["skips"])
        self.violation_keys.update(d["violation_keys"])
        for v in d["violations"]:
            if sum(1 for w in self.violations if w["key"] == v["key"]) < 3:
                self.violations.append(v)
        for s in d["samples"]:
            if len(self.samples) < self.MAX_SAMPLES:
                self.samples.append(s)
        self.errors.extend(d["errors"])
        self.slowest = sorted(self.slowest + d.get("slowest", []), key=lambda x: -x[0])[:3]
